//! csv-dedup — correspondence + oracle for C15 (dual-write routes each row to
//! exactly one new shard; split-time reads stay exact).
//!
//! Three families of cases, all derived from the one seed:
//!  D  `dedup_batches` (through the verif_hooks wrapper) on generated result
//!     batches — several series per (timestamp, metric), exact duplicates, NULL
//!     timestamps / metrics / labels, batches lacking or mis-naming the gating
//!     columns, four physical timestamp types and four string encodings —
//!     against the extracted model and an independent reference.
//!  R  a real `Ingester` (both metadata backends) executing histories of
//!     start_split / update_split_progress / complete_split / write / flush;
//!     every registered chunk is read back (Parquet) and compared per shard path
//!     with the model's routing; oracle: rows under the first new shard are
//!     exactly the rows below the split point, under the second the rows at or
//!     above it, the old shard holds every written row.
//!  E  end to end: the same history on a pipeline with the split planted and on
//!     one without — each with ONE long-lived metadata client and QueryNode —
//!     with `QueryNode::query` (raw selects, projections, COUNT, SUM, GROUP BY)
//!     interleaved at every stage: before any split, in Preparation, right after
//!     entering DualWrite, after dual writes + flush, after the splitter's real
//!     back-fill of historical chunks (time windows that select only historical
//!     chunks and their back-fill copies), after further writes.  Every query is
//!     compared with the model and judged by the oracle "answer == answer of the
//!     same query on the no-split pipeline"; violating runs are classified with
//!     the extracted `known_class`.
use arrow::array::{Array, ArrayRef, AsArray, DictionaryArray, Int64Array, LargeStringArray, RecordBatch, StringArray, StringViewArray, TimestampMicrosecondArray, TimestampNanosecondArray};
use arrow::datatypes::{DataType, Field, Int32Type, Schema, TimeUnit};
use cardinalsin::ingester::{Ingester, IngesterConfig};
use cardinalsin::metadata::{LocalMetadataClient, MetadataClient, ObjectStoreMetadataClient, ObjectStoreMetadataConfig};
use cardinalsin::query::{QueryConfig, QueryNode};
use cardinalsin::schema::MetricSchema;
use cardinalsin::sharding::{ShardKey, ShardSplitter, SplitPhase};
use cardinalsin::StorageConfig;
use csv_common::{catch, ddmin, Args, Model, Report, Rng};
use object_store::memory::InMemory;
use object_store::ObjectStore;
use serde_json::{json, Value};
use std::collections::{BTreeMap, HashSet};
use std::panic::AssertUnwindSafe;
use std::sync::Arc;

// ------------------------------------------------------ faulty store ----
/// InMemory with one injectable fault: the next `n` GETs of the split-state
/// object fail with a generic (non-NotFound) error, as a transient store error would.
#[derive(Debug)]
struct FaultStore {
    inner: InMemory,
    fail_split_state_gets: std::sync::atomic::AtomicU32,
}
impl std::fmt::Display for FaultStore {
    fn fmt(&self, f: &mut std::fmt::Formatter<'_>) -> std::fmt::Result {
        write!(f, "FaultStore({})", self.inner)
    }
}
#[async_trait::async_trait]
impl ObjectStore for FaultStore {
    async fn put_opts(&self, location: &object_store::path::Path, payload: object_store::PutPayload, opts: object_store::PutOptions) -> object_store::Result<object_store::PutResult> {
        self.inner.put_opts(location, payload, opts).await
    }
    async fn put_multipart_opts(&self, location: &object_store::path::Path, opts: object_store::PutMultipartOpts) -> object_store::Result<Box<dyn object_store::MultipartUpload>> {
        self.inner.put_multipart_opts(location, opts).await
    }
    async fn get_opts(&self, location: &object_store::path::Path, options: object_store::GetOptions) -> object_store::Result<object_store::GetResult> {
        use std::sync::atomic::Ordering;
        if location.as_ref().ends_with("split-states.json") && self.fail_split_state_gets.load(Ordering::SeqCst) > 0 {
            self.fail_split_state_gets.fetch_sub(1, Ordering::SeqCst);
            return Err(object_store::Error::Generic { store: "FaultStore", source: "injected transient GET failure".into() });
        }
        self.inner.get_opts(location, options).await
    }
    async fn delete(&self, location: &object_store::path::Path) -> object_store::Result<()> {
        self.inner.delete(location).await
    }
    fn list(&self, prefix: Option<&object_store::path::Path>) -> futures::stream::BoxStream<'_, object_store::Result<object_store::ObjectMeta>> {
        self.inner.list(prefix)
    }
    async fn list_with_delimiter(&self, prefix: Option<&object_store::path::Path>) -> object_store::Result<object_store::ListResult> {
        self.inner.list_with_delimiter(prefix).await
    }
    async fn copy(&self, from: &object_store::path::Path, to: &object_store::path::Path) -> object_store::Result<()> {
        self.inner.copy(from, to).await
    }
    async fn copy_if_not_exists(&self, from: &object_store::path::Path, to: &object_store::path::Path) -> object_store::Result<()> {
        self.inner.copy_if_not_exists(from, to).await
    }
}

const NULL_TOKEN: i128 = 1i128 << 63; // SQL NULL of an aggregate (the model's NULL_TOKEN)
const NULL_CELL: i128 = -1; // NULL label / value cell (never generated as a value)

// ------------------------------------------------------------------ rows ----
#[derive(Clone, Debug, PartialEq, Eq, Hash, PartialOrd, Ord)]
struct Row {
    ts: Option<i64>,
    metric: Option<u64>,
    rest: Vec<i128>,
}

fn show_row(r: &Row) -> String {
    format!(
        "{},{},{}",
        r.ts.map(|t| t.to_string()).unwrap_or_else(|| "n".into()),
        r.metric.map(|m| m.to_string()).unwrap_or_else(|| "n".into()),
        if r.rest.is_empty() { "-".to_string() } else { r.rest.iter().map(|v| v.to_string()).collect::<Vec<_>>().join(":") }
    )
}
fn show_rows_sorted(rows: &[Row]) -> String {
    let mut v: Vec<String> = rows.iter().map(show_row).collect();
    v.sort();
    v.join(";")
}

fn metric_name(id: u64) -> String {
    if id == 0 { String::new() } else { format!("m{}", id) }
}
fn label_name(prefix: char, id: i128) -> String {
    format!("{}{}", prefix, id)
}
fn parse_name(s: &str) -> i128 {
    if s.is_empty() { 0 } else { s[1..].parse::<i128>().unwrap_or(-7) }
}

/// Canonical rows of any record batch: `timestamp` -> ts, `metric_name` ->
/// metric, every other column (schema order) -> one token.
fn canon_rows(b: &RecordBatch) -> (bool, bool, Vec<Row>) {
    let n = b.num_rows();
    let schema = b.schema();
    let mut has_ts = false;
    let mut has_m = false;
    let mut rows: Vec<Row> = (0..n).map(|_| Row { ts: None, metric: None, rest: vec![] }).collect();
    for (ci, f) in schema.fields().iter().enumerate() {
        let col = b.column(ci);
        let stringy = matches!(f.data_type(), DataType::Utf8 | DataType::LargeUtf8 | DataType::Utf8View | DataType::Dictionary(_, _));
        let toks: Vec<Option<i128>> = if stringy {
            let c = arrow::compute::cast(col, &DataType::Utf8).expect("cast to utf8");
            let a = c.as_string::<i32>();
            (0..n).map(|i| if a.is_null(i) { None } else { Some(parse_name(a.value(i))) }).collect()
        } else {
            let c = arrow::compute::cast(col, &DataType::Int64).expect("cast to int64");
            let a = c.as_primitive::<arrow::datatypes::Int64Type>();
            (0..n).map(|i| if a.is_null(i) { None } else { Some(a.value(i) as i128) }).collect()
        };
        if f.name() == "timestamp" && !has_ts {
            has_ts = true;
            for (i, t) in toks.iter().enumerate() {
                rows[i].ts = t.map(|v| v as i64);
            }
        } else if f.name() == "metric_name" && !has_m {
            has_m = true;
            for (i, t) in toks.iter().enumerate() {
                rows[i].metric = t.map(|v| v as u64);
            }
        } else {
            let agg = f.name() == "s";
            for (i, t) in toks.iter().enumerate() {
                rows[i].rest.push(t.unwrap_or(if agg { NULL_TOKEN } else { NULL_CELL }));
            }
        }
    }
    (has_ts, has_m, rows)
}

fn show_batch(b: &RecordBatch) -> String {
    let (t, m, rows) = canon_rows(b);
    let mut parts = vec![format!("{}{}", t as u8, m as u8)];
    parts.extend(rows.iter().map(show_row));
    parts.join(";")
}

// ---------------------------------------------------- family D: dedup ----
#[derive(Clone, Copy, Debug)]
enum TsType { Int64, Nanos, NanosUtc, Micros }
#[derive(Clone, Copy, Debug)]
enum StrType { Utf8, View, Large, Dict }

#[derive(Clone, Debug)]
struct DBatch {
    ts_name: &'static str,     // "timestamp" or a name that is not recognised
    metric_name: &'static str, // "metric_name" or a name that is not recognised
    drop_ts: bool,
    drop_metric: bool,
    rows: Vec<(Option<i64>, Option<u64>, Option<i128>, Option<i128>)>, // ts, metric, host, value
}
#[derive(Clone, Debug)]
struct DCase {
    ts_type: TsType,
    str_type: StrType,
    batches: Vec<DBatch>,
}

fn str_array(t: StrType, vals: Vec<Option<String>>) -> (DataType, ArrayRef) {
    match t {
        StrType::Utf8 => (DataType::Utf8, Arc::new(StringArray::from(vals)) as ArrayRef),
        StrType::View => (DataType::Utf8View, Arc::new(StringViewArray::from(vals)) as ArrayRef),
        StrType::Large => (DataType::LargeUtf8, Arc::new(LargeStringArray::from(vals)) as ArrayRef),
        StrType::Dict => {
            let d: DictionaryArray<Int32Type> = vals.iter().map(|v| v.as_deref()).collect();
            (d.data_type().clone(), Arc::new(d) as ArrayRef)
        }
    }
}
fn ts_array(t: TsType, vals: Vec<Option<i64>>) -> (DataType, ArrayRef) {
    match t {
        TsType::Int64 => (DataType::Int64, Arc::new(Int64Array::from(vals)) as ArrayRef),
        TsType::Nanos => (DataType::Timestamp(TimeUnit::Nanosecond, None), Arc::new(TimestampNanosecondArray::from(vals)) as ArrayRef),
        TsType::NanosUtc => (
            DataType::Timestamp(TimeUnit::Nanosecond, Some("UTC".into())),
            Arc::new(TimestampNanosecondArray::from(vals).with_timezone("UTC")) as ArrayRef,
        ),
        TsType::Micros => (DataType::Timestamp(TimeUnit::Microsecond, None), Arc::new(TimestampMicrosecondArray::from(vals)) as ArrayRef),
    }
}

fn build_dbatch(c: &DCase, b: &DBatch) -> RecordBatch {
    let mut fields = Vec::new();
    let mut cols: Vec<ArrayRef> = Vec::new();
    if !b.drop_ts {
        let (dt, a) = ts_array(c.ts_type, b.rows.iter().map(|r| r.0).collect());
        fields.push(Field::new(b.ts_name, dt, true));
        cols.push(a);
    }
    if !b.drop_metric {
        let (dt, a) = str_array(c.str_type, b.rows.iter().map(|r| r.1.map(metric_name)).collect());
        fields.push(Field::new(b.metric_name, dt, true));
        cols.push(a);
    }
    let (dt, a) = str_array(c.str_type, b.rows.iter().map(|r| r.2.map(|h| label_name('h', h))).collect());
    fields.push(Field::new("host", dt, true));
    cols.push(a);
    fields.push(Field::new("value_i64", DataType::Int64, true));
    cols.push(Arc::new(Int64Array::from(b.rows.iter().map(|r| r.3.map(|v| v as i64)).collect::<Vec<_>>())));
    RecordBatch::try_new(Arc::new(Schema::new(fields)), cols).expect("batch")
}

fn gen_dcase(rng: &mut Rng, report: &mut Report) -> DCase {
    let ts_type = *rng.pick(&[TsType::Int64, TsType::Int64, TsType::Nanos, TsType::NanosUtc, TsType::Micros]);
    let str_type = *rng.pick(&[StrType::Utf8, StrType::View, StrType::View, StrType::Large, StrType::Dict]);
    report.bump(&format!("D.ts_type.{:?}", ts_type));
    report.bump(&format!("D.str_type.{:?}", str_type));
    let nb = rng.range_usize(1, 4);
    let nts = rng.range_i64(1, 3);
    let nmet = rng.range_i64(1, 3) as u64;
    let mut pool: Vec<(Option<i64>, Option<u64>, Option<i128>, Option<i128>)> = Vec::new();
    let mut batches = Vec::new();
    for _ in 0..nb {
        let nr = if rng.chance(1, 10) { 0 } else { rng.range_usize(1, 6) };
        let mut rows = Vec::new();
        for _ in 0..nr {
            let r = if !pool.is_empty() && rng.chance(2, 5) {
                report.bump("D.row.exact_copy");
                pool[rng.below(pool.len() as u64) as usize]
            } else {
                let ts = if rng.chance(1, 12) { report.bump("D.row.null_ts"); None } else { Some(100 + rng.range_i64(0, nts - 1)) };
                // metric id 0 is the empty string: distinct from NULL
                let m = if rng.chance(1, 15) { report.bump("D.row.null_metric"); None } else { Some(rng.below(nmet + 1)) };
                let h = if rng.chance(1, 12) { None } else { Some(rng.range_i64(1, 2) as i128) };
                let v = if rng.chance(1, 12) { None } else { Some(rng.range_i64(1, 2) as i128) };
                (ts, m, h, v)
            };
            pool.push(r);
            rows.push(r);
        }
        let mut b = DBatch { ts_name: "timestamp", metric_name: "metric_name", drop_ts: false, drop_metric: false, rows };
        match rng.below(14) {
            0 => { b.drop_ts = true; report.bump("D.batch.no_timestamp"); }
            1 => { b.drop_metric = true; report.bump("D.batch.no_metric"); }
            2 => { b.ts_name = "time"; report.bump("D.batch.misnamed_timestamp"); }
            3 => { b.metric_name = "metric"; report.bump("D.batch.misnamed_metric"); }
            4 => { b.ts_name = "Timestamp"; report.bump("D.batch.misnamed_timestamp"); }
            _ => {}
        }
        batches.push(b);
    }
    DCase { ts_type, str_type, batches }
}

/// reference: first occurrence of every whole row with a non-NULL timestamp,
/// across the batches that carry both gating columns; everything else as is.
fn dedup_reference(inputs: &[RecordBatch]) -> Vec<String> {
    let mut seen: HashSet<String> = HashSet::new();
    let mut out = Vec::new();
    for b in inputs {
        let (t, m, rows) = canon_rows(b);
        if !(t && m) {
            out.push(show_batch(b));
            continue;
        }
        let mut kept = Vec::new();
        for r in &rows {
            if r.ts.is_none() || seen.insert(show_row(r)) {
                kept.push(show_row(r));
            }
        }
        if kept.len() == rows.len() || !kept.is_empty() {
            let mut parts = vec!["11".to_string()];
            parts.extend(kept);
            out.push(parts.join(";"));
        }
    }
    out
}

fn run_dcase(c: &DCase, keep: Option<&[usize]>) -> (String, String, Vec<String>) {
    let idx: Vec<usize> = keep.map(|k| k.to_vec()).unwrap_or_else(|| (0..c.batches.len()).collect());
    let inputs: Vec<RecordBatch> = idx.iter().map(|&i| build_dbatch(c, &c.batches[i])).collect();
    let mut line = vec!["D".to_string()];
    line.extend(inputs.iter().map(show_batch));
    let line = line.join("|");
    let reference = dedup_reference(&inputs);
    let res = catch(AssertUnwindSafe(|| cardinalsin::query::verif::dedup_batches(inputs.clone())));
    let mut bad = Vec::new();
    let out = match res {
        Ok(Ok(bs)) => {
            let got: Vec<String> = bs.iter().map(show_batch).collect();
            if got != reference {
                bad.push(format!("dedup_batches returned {:?}, exact de-duplication is {:?}", got, reference));
            }
            let mut parts = vec!["R".to_string()];
            parts.extend(got);
            parts.join("|")
        }
        Ok(Err(e)) => { bad.push(format!("dedup_batches failed: {}", e)); "ERR".to_string() }
        Err(p) => { bad.push(format!("dedup_batches panicked: {}", p)); "PANIC".to_string() }
    };
    (line, out, bad)
}

// ------------------------------------------- families R and E: histories ----
#[derive(Clone, Debug, PartialEq)]
enum Op {
    S { sid: u32, news: Vec<u32>, point: Vec<u8> },
    P { sid: u32, phase: &'static str },
    C { sid: u32 },
    W { sid: u32, schema: u32, rows: Vec<Row> },
    /// a write during which the next GET of split-states.json fails (object-store backend only)
    Wf { sid: u32, schema: u32, rows: Vec<Row> },
    F,
    Hh { sid: u32, rows: Vec<Row> }, // register a historical chunk of the old shard
    B { sid: u32 },                  // ShardSplitter::run_backfill for the planted split
    Q { lo: i64, hi: i64, metric: Option<u64>, post: String },
    X,
}

#[derive(Clone, Debug)]
struct HCase {
    flush_rows: usize,
    object_store_backend: bool,
    base: i64,
    shard_metric: BTreeMap<u32, u64>, // logical shard id -> metric of the first row of its batches
    ops: Vec<Op>,
}

fn ts_kind(schema: u32) -> &'static str {
    match schema { 1 | 3 => "i", 2 => "n", _ => "o" }
}

fn encode_op(o: &Op) -> String {
    let list = |v: &[String]| if v.is_empty() { "-".to_string() } else { v.join(",") };
    match o {
        Op::S { sid, news, point } => format!(
            "S {} {} {}", sid,
            list(&news.iter().map(|n| n.to_string()).collect::<Vec<_>>()),
            list(&point.iter().map(|b| b.to_string()).collect::<Vec<_>>())),
        Op::P { sid, phase } => format!("P {} {}", sid, phase),
        Op::C { sid } => format!("C {}", sid),
        Op::W { sid, schema, rows } => format!("W {} {} {} {}", sid, schema, ts_kind(*schema), rows.iter().map(show_row).collect::<Vec<_>>().join(";")),
        Op::Wf { sid, schema, rows } => format!("Wf {} {} {} {}", sid, schema, ts_kind(*schema), rows.iter().map(show_row).collect::<Vec<_>>().join(";")),
        Op::F => "F".to_string(),
        Op::Hh { sid, rows } => format!("Hh {} {}", sid, rows.iter().map(show_row).collect::<Vec<_>>().join(";")),
        Op::B { sid } => format!("B {}", sid),
        Op::Q { lo, hi, metric, post } => format!("Q {} {} {} {}", lo, hi, metric.map(|m| m.to_string()).unwrap_or_else(|| "-".into()), post),
        Op::X => "X".to_string(),
    }
}
fn encode_h(c: &HCase, ops: &[Op]) -> String {
    let mut v = vec!["H".to_string(), c.flush_rows.to_string()];
    v.extend(ops.iter().map(encode_op));
    v.join("|")
}

fn ingest_batch(schema: u32, rows: &[Row]) -> RecordBatch {
    let ts: Vec<i64> = rows.iter().map(|r| r.ts.unwrap()).collect();
    let (ts_dt, ts_arr): (DataType, ArrayRef) = match schema {
        2 => (DataType::Timestamp(TimeUnit::Nanosecond, Some("UTC".into())), Arc::new(TimestampNanosecondArray::from(ts).with_timezone("UTC"))),
        4 => (DataType::Timestamp(TimeUnit::Microsecond, None), Arc::new(TimestampMicrosecondArray::from(ts))),
        _ => (DataType::Int64, Arc::new(Int64Array::from(ts))),
    };
    let mut fields = vec![
        Field::new("timestamp", ts_dt, false),
        Field::new("metric_name", DataType::Utf8, false),
        Field::new("host", DataType::Utf8, false),
        Field::new("value_i64", DataType::Int64, false),
    ];
    let mut cols: Vec<ArrayRef> = vec![
        ts_arr,
        Arc::new(StringArray::from(rows.iter().map(|r| metric_name(r.metric.unwrap())).collect::<Vec<_>>())),
        Arc::new(StringArray::from(rows.iter().map(|r| label_name('h', r.rest[0])).collect::<Vec<_>>())),
        Arc::new(Int64Array::from(rows.iter().map(|r| r.rest[1] as i64).collect::<Vec<_>>())),
    ];
    if schema == 3 {
        fields.push(Field::new("region", DataType::Utf8, false));
        cols.push(Arc::new(StringArray::from(rows.iter().map(|r| label_name('g', r.rest[2])).collect::<Vec<_>>())));
    }
    RecordBatch::try_new(Arc::new(Schema::new(fields)), cols).expect("ingest batch")
}

/// the shard id `Ingester::compute_shard_id` derives from the first row
fn shard_id_string(metric: u64, ts: i64) -> String {
    let k = ShardKey::new(0, &metric_name(metric), ts);
    format!("shard-{:x}", u64::from_be_bytes(k.to_bytes()[0..8].try_into().unwrap()))
}
fn new_shard_name(n: u32) -> String {
    format!("new{}", n)
}
fn phase_of(s: &str) -> SplitPhase {
    match s {
        "prep" => SplitPhase::Preparation,
        "dual" => SplitPhase::DualWrite,
        "backfill" => SplitPhase::Backfill,
        "cutover" => SplitPhase::Cutover,
        _ => SplitPhase::Cleanup,
    }
}

struct Pipeline {
    fault: Arc<FaultStore>,
    store: Arc<dyn ObjectStore>,
    meta: Arc<dyn MetadataClient>,
    ing: Ingester,
    sc: StorageConfig,
    qn: Option<QueryNode>,
}

fn new_pipeline(c: &HCase) -> Pipeline {
    let fault = Arc::new(FaultStore { inner: InMemory::new(), fail_split_state_gets: std::sync::atomic::AtomicU32::new(0) });
    let store: Arc<dyn ObjectStore> = fault.clone();
    let meta: Arc<dyn MetadataClient> = if c.object_store_backend {
        Arc::new(ObjectStoreMetadataClient::new(
            store.clone(),
            ObjectStoreMetadataConfig { bucket: "b".into(), metadata_prefix: "metadata/".into(), enable_cache: true, allow_unsafe_overwrite: false },
        ))
    } else {
        Arc::new(LocalMetadataClient::new())
    };
    let sc = StorageConfig::default();
    let mut cfg = IngesterConfig { flush_row_count: c.flush_rows, flush_size_bytes: usize::MAX / 4, max_buffer_size_bytes: usize::MAX / 4, ..Default::default() };
    cfg.wal.enabled = false;
    let ing = Ingester::new(cfg, store.clone(), meta.clone(), sc.clone(), MetricSchema::default_metrics());
    Pipeline { fault, store, meta, ing, sc, qn: None }
}

async fn force_flush(p: &Pipeline) {
    // the shutdown branch of run_flush_timer flushes whatever is buffered
    p.ing.shutdown_token().cancel();
    p.ing.run_flush_timer().await;
}

/// where a chunk lives, from its path: "-" ordinary ingester path, "<n>" under
/// new shard n (dual-write chunk or back-fill copy), "h<sid>" historical chunk
fn chunk_label(path: &str, shard_ids: &BTreeMap<u32, String>) -> String {
    if path.contains("/hist_") {
        for (sid, name) in shard_ids {
            if path.contains(name.as_str()) {
                return format!("h{}", sid);
            }
        }
        return "h?".into();
    }
    if let Some(n) = path.split('/').find_map(|seg| seg.strip_prefix("shard=new")) {
        return n.to_string();
    }
    if path.contains("/backfill_") {
        if let Some(n) = path.split('/').next().and_then(|seg| seg.strip_prefix("new")) {
            return n.to_string();
        }
    }
    "-".into()
}

async fn dump(p: &Pipeline, shard_ids: &BTreeMap<u32, String>) -> (String, Vec<(String, Vec<Row>)>) {
    let buf = p.ing.buffer_stats().await.row_count;
    let mut chunks: Vec<(String, Vec<Row>)> = Vec::new();
    let mut listed = p.meta.list_chunks().await.unwrap_or_default();
    listed.sort_by(|a, b| a.chunk_path.cmp(&b.chunk_path));
    for e in listed {
        let path = object_store::path::Path::from(e.chunk_path.as_str());
        let bytes = p.store.get(&path).await.expect("chunk object").bytes().await.expect("chunk bytes");
        let reader = parquet::arrow::arrow_reader::ParquetRecordBatchReaderBuilder::try_new(bytes).expect("parquet").build().expect("reader");
        let mut rows = Vec::new();
        for b in reader {
            rows.extend(canon_rows(&b.expect("parquet batch")).2);
        }
        chunks.push((chunk_label(&e.chunk_path, shard_ids), rows));
    }
    let mut strs: Vec<String> = chunks
        .iter()
        .map(|(s, rows)| format!("{}>{}", s, rows.iter().map(show_row).collect::<Vec<_>>().join(";")))
        .collect();
    strs.sort();
    (format!("buf={}#{}", buf, strs.join("/")), chunks)
}

/// a chunk that existed before the split: stored under a path that names the
/// old shard (what get_chunks_for_shard finds) and registered in the catalog
async fn put_hist_chunk(p: &Pipeline, path: &str, rows: &[Row]) -> Result<(), String> {
    let batch = ingest_batch(1, rows);
    let mut buf = Vec::new();
    {
        let mut w = parquet::arrow::ArrowWriter::try_new(&mut buf, batch.schema(), None).map_err(|e| e.to_string())?;
        w.write(&batch).map_err(|e| e.to_string())?;
        w.close().map_err(|e| e.to_string())?;
    }
    let size = buf.len() as u64;
    p.store.put(&object_store::path::Path::from(path), bytes::Bytes::from(buf).into()).await.map_err(|e| e.to_string())?;
    let ts: Vec<i64> = rows.iter().map(|r| r.ts.unwrap()).collect();
    let meta = cardinalsin::ingester::ChunkMetadata {
        path: path.to_string(),
        min_timestamp: *ts.iter().min().unwrap(),
        max_timestamp: *ts.iter().max().unwrap(),
        row_count: rows.len() as u64,
        size_bytes: size,
    };
    p.meta.register_chunk(path, &meta).await.map_err(|e| e.to_string())
}

fn sql_of(lo: i64, hi: i64, metric: Option<u64>, post: &str) -> String {
    let mut w = format!("timestamp >= {} AND timestamp <= {}", lo, hi);
    if let Some(m) = metric {
        w.push_str(&format!(" AND metric_name = '{}'", metric_name(m)));
    }
    match post {
        "count" => format!("SELECT COUNT(*) AS c FROM metrics WHERE {}", w),
        "sum1" => format!("SELECT SUM(value_i64) AS s FROM metrics WHERE {}", w),
        "cbk" => format!("SELECT timestamp, metric_name, COUNT(*) AS c FROM metrics WHERE {} GROUP BY timestamp, metric_name", w),
        "cbm" => format!("SELECT metric_name, COUNT(*) AS c FROM metrics WHERE {} GROUP BY metric_name", w),
        raw => {
            let f: Vec<char> = raw.chars().collect();
            let mut cols = Vec::new();
            if f[3] == '1' { cols.push("timestamp"); }
            if f[4] == '1' { cols.push("metric_name"); }
            if f[5] == '1' { cols.push("host"); cols.push("value_i64"); }
            format!("SELECT {} FROM metrics WHERE {}", cols.join(", "), w)
        }
    }
}

async fn run_query(p: &mut Pipeline, lo: i64, hi: i64, metric: Option<u64>, post: &str) -> Result<Vec<Row>, String> {
    if p.qn.is_none() {
        let qn = QueryNode::new(QueryConfig::default(), p.store.clone(), p.meta.clone(), p.sc.clone()).await.map_err(|e| e.to_string())?;
        // bind `metrics` to the stored chunks once, so that a later window without
        // any chunk sees an empty table of the data's schema (not the default one)
        let _ = qn.query(&format!("SELECT COUNT(*) FROM metrics WHERE timestamp >= {} AND timestamp <= {}", lo.saturating_sub(1_000_000), hi.saturating_add(1_000_000))).await;
        p.qn = Some(qn);
    }
    let sql = sql_of(lo, hi, metric, post);
    let bs = p.qn.as_ref().unwrap().query(&sql).await.map_err(|e| format!("{} [{}]", e, sql))?;
    let mut rows = Vec::new();
    for b in &bs {
        rows.extend(canon_rows(b).2);
    }
    Ok(rows)
}

/// What the harness itself expects (independent of the model): routing of each
/// accepted dual-write, and the set of everything written.
#[derive(Default)]
struct Expect {
    splits: BTreeMap<u32, (String, Vec<u32>, Vec<u8>)>, // sid -> phase, new shards, point
    new_rows: BTreeMap<u32, Vec<Row>>,
    hist: BTreeMap<u32, Vec<Vec<Row>>>, // historical chunks per old shard
    backfilled: HashSet<u32>,
    all_rows: Vec<Row>,
    exact: bool, // false once an op ran whose effect the simple expectation does not describe
}

struct HOutcome {
    impl_out: String,
    bad: Vec<(String, String)>, // (class, what)
    queries: u64,
}

/// Runs the history on the real code.  `model_toks`: the model's tokens (for
/// classifying query violations with the extracted classifier), if available.
fn run_hcase(rt: &tokio::runtime::Runtime, c: &HCase, ops: &[Op], model_toks: Option<&[String]>, report: &mut Report) -> HOutcome {
    let mut a = new_pipeline(c); // split planted
    let mut b = new_pipeline(c); // same writes, no split
    let has_q = ops.iter().any(|o| matches!(o, Op::Q { .. }));
    let mut exp = Expect { exact: true, ..Default::default() };
    let mut toks: Vec<String> = Vec::new();
    let mut bad: Vec<(String, String)> = Vec::new();
    let mut queries = 0u64;
    let sid_str = |sid: u32| shard_id_string(*c.shard_metric.get(&sid).unwrap_or(&1), c.base);
    let shard_ids: BTreeMap<u32, String> = c.shard_metric.keys().map(|s| (*s, sid_str(*s))).collect();
    for (i, op) in ops.iter().enumerate() {
        let tok = match op {
            Op::S { sid, news, point } => {
                let r = catch(AssertUnwindSafe(|| rt.block_on(a.meta.start_split(&sid_str(*sid), news.iter().map(|n| new_shard_name(*n)).collect(), point.clone()))));
                exp.splits.insert(*sid, ("prep".into(), news.clone(), point.clone()));
                rc(&r)
            }
            Op::P { sid, phase } => {
                let r = catch(AssertUnwindSafe(|| rt.block_on(a.meta.update_split_progress(&sid_str(*sid), 0.5, phase_of(phase)))));
                if let Some(s) = exp.splits.get_mut(sid) {
                    s.0 = phase.to_string();
                }
                rc(&r)
            }
            Op::C { sid } => {
                let r = catch(AssertUnwindSafe(|| rt.block_on(a.meta.complete_split(&sid_str(*sid)))));
                exp.splits.remove(sid);
                rc(&r)
            }
            Op::W { sid, schema, rows } => {
                let batch = ingest_batch(*schema, rows);
                let actual_sid = shard_id_string(rows[0].metric.unwrap(), rows[0].ts.unwrap());
                assert_eq!(actual_sid, sid_str(*sid), "generator: batch does not belong to its logical shard");
                let r = catch(AssertUnwindSafe(|| rt.block_on(a.ing.write(batch.clone()))));
                if has_q {
                    let _ = catch(AssertUnwindSafe(|| rt.block_on(b.ing.write(batch))));
                }
                // independent expectation
                exp.all_rows.extend(rows.iter().cloned());
                let dual = exp.splits.get(sid).filter(|s| s.0 == "dual" || s.0 == "backfill").cloned();
                let mut expect_tok = "ok".to_string();
                if let Some((_, news, point)) = dual {
                    report.bump("R.write.dual_path");
                    if ts_kind(*schema) != "i" {
                        expect_tok = "err1".into();
                        report.bump("R.write.dual_rejected_timestamp_type");
                    } else if point.len() != 8 {
                        expect_tok = "err2".into();
                        report.bump("R.write.dual_bad_split_point");
                    } else {
                        let sp = i64::from_be_bytes(point.clone().try_into().unwrap());
                        let lo: Vec<Row> = rows.iter().filter(|r| r.ts.unwrap() < sp).cloned().collect();
                        let up: Vec<Row> = rows.iter().filter(|r| r.ts.unwrap() >= sp).cloned().collect();
                        if rows.iter().any(|r| r.ts.unwrap() == sp) { report.bump("R.row.at_split_point"); }
                        if !lo.is_empty() { report.bump("R.side.lower_nonempty"); }
                        if !up.is_empty() { report.bump("R.side.upper_nonempty"); }
                        if !lo.is_empty() {
                            match news.first() {
                                Some(s) => exp.new_rows.entry(*s).or_default().extend(lo),
                                None => expect_tok = "panic".into(),
                            }
                        }
                        if expect_tok == "ok" && !up.is_empty() {
                            match news.get(1) {
                                Some(s) => exp.new_rows.entry(*s).or_default().extend(up),
                                None => expect_tok = "panic".into(),
                            }
                        }
                        if expect_tok == "panic" { report.bump("R.write.dual_missing_new_shard"); }
                    }
                } else {
                    report.bump("R.write.single_path");
                }
                let t = rc(&r);
                if t != expect_tok {
                    bad.push(("".into(), format!("op {}: write returned {} but the routing rule gives {}", i, t, expect_tok)));
                }
                t
            }
            Op::Wf { sid, schema, rows } => {
                // oracle only (the model has no fault step): a write that returns Ok while its
                // shard is in DualWrite/Backfill must have every row in exactly one new shard, on
                // the correct side; a refused write must leave nothing behind
                use std::sync::atomic::Ordering;
                let batch = ingest_batch(*schema, rows);
                a.fault.fail_split_state_gets.store(1, Ordering::SeqCst);
                let r = catch(AssertUnwindSafe(|| rt.block_on(a.ing.write(batch))));
                a.fault.fail_split_state_gets.store(0, Ordering::SeqCst);
                report.bump("R.write.with_split_state_get_fault");
                let t = rc(&r);
                if t == "ok" {
                    report.bump("R.write.with_split_state_get_fault.accepted");
                    exp.all_rows.extend(rows.iter().cloned());
                    if let Some((_, news, point)) = exp.splits.get(sid).filter(|s| s.0 == "dual" || s.0 == "backfill").cloned() {
                        if ts_kind(*schema) == "i" && point.len() == 8 && news.len() >= 2 {
                            let sp = i64::from_be_bytes(point.clone().try_into().unwrap());
                            exp.new_rows.entry(news[0]).or_default().extend(rows.iter().filter(|r| r.ts.unwrap() < sp).cloned());
                            exp.new_rows.entry(news[1]).or_default().extend(rows.iter().filter(|r| r.ts.unwrap() >= sp).cloned());
                            report.bump("R.write.with_split_state_get_fault.accepted_in_dual");
                        }
                    }
                } else if t == "panic" {
                    bad.push(("".into(), format!("op {}: write panicked under a split-state GET fault", i)));
                }
                t
            }
            Op::Hh { sid, rows } => {
                let path = format!("default/data/{}/hist_{}.parquet", sid_str(*sid), i);
                let r = rt.block_on(put_hist_chunk(&a, &path, rows));
                if has_q {
                    let _ = rt.block_on(put_hist_chunk(&b, &path, rows));
                }
                exp.all_rows.extend(rows.iter().cloned());
                exp.hist.entry(*sid).or_default().push(rows.clone());
                report.bump("R.op.historical_chunk");
                if r.is_ok() { "ok".to_string() } else { format!("err9 {:?}", r) }
            }
            Op::B { sid } => {
                match exp.splits.get(sid).cloned() {
                    None => "ok".to_string(), // not generated: nothing to back-fill without a planted split
                    Some((_, news, point)) => {
                        let splitter = ShardSplitter::new(a.meta.clone(), a.store.clone());
                        let names: Vec<String> = news.iter().map(|n| new_shard_name(*n)).collect();
                        let r = catch(AssertUnwindSafe(|| rt.block_on(splitter.run_backfill(&sid_str(*sid), &names, &point))));
                        report.bump("R.op.real_backfill");
                        // independent expectation: every historical chunk of the shard is copied, split at the split point
                        if !exp.backfilled.insert(*sid) {
                            exp.exact = false;
                        }
                        if point.len() == 8 && news.len() >= 2 {
                            let sp = i64::from_be_bytes(point.clone().try_into().unwrap());
                            for chunk in exp.hist.get(sid).cloned().unwrap_or_default() {
                                let lo: Vec<Row> = chunk.iter().filter(|r| r.ts.unwrap() < sp).cloned().collect();
                                let up: Vec<Row> = chunk.iter().filter(|r| r.ts.unwrap() >= sp).cloned().collect();
                                if !lo.is_empty() && !up.is_empty() { report.bump("R.backfill.chunk_on_both_sides"); }
                                exp.new_rows.entry(news[0]).or_default().extend(lo);
                                exp.new_rows.entry(news[1]).or_default().extend(up);
                            }
                        }
                        if let Some(s) = exp.splits.get_mut(sid) {
                            s.0 = "backfill".into();
                        }
                        rc(&r)
                    }
                }
            }
            Op::F => {
                rt.block_on(force_flush(&a));
                if has_q {
                    rt.block_on(force_flush(&b));
                }
                "ok".to_string()
            }
            Op::X => {
                let (s, chunks) = rt.block_on(dump(&a, &shard_ids));
                // oracle: per-shard row multisets
                let mut got_new: BTreeMap<u32, Vec<Row>> = BTreeMap::new();
                let mut got_old: Vec<Row> = Vec::new();
                for (sh, rows) in &chunks {
                    match sh.parse::<u32>() {
                        Ok(n) => got_new.entry(n).or_default().extend(rows.iter().cloned()),
                        Err(_) => got_old.extend(rows.iter().cloned()),
                    }
                }
                let mut shards: Vec<u32> = got_new.keys().chain(exp.new_rows.keys()).cloned().collect();
                shards.sort();
                shards.dedup();
                for sh in shards {
                    let g = show_rows_sorted(got_new.get(&sh).map(|v| v.as_slice()).unwrap_or(&[]));
                    let e = show_rows_sorted(exp.new_rows.get(&sh).map(|v| v.as_slice()).unwrap_or(&[]));
                    if g != e {
                        bad.push(("".into(), format!("new shard {} holds {{{}}} but the rows on its side of the split point are {{{}}}", sh, g, e)));
                    }
                }
                let buffered = s.starts_with("buf=0#");
                if buffered && exp.exact && show_rows_sorted(&got_old) != show_rows_sorted(&exp.all_rows) {
                    bad.push(("".into(), format!("old shard holds {{{}}} but {{{}}} was written", show_rows_sorted(&got_old), show_rows_sorted(&exp.all_rows))));
                }
                s
            }
            Op::Q { lo, hi, metric, post } => {
                queries += 1;
                let ra = catch(AssertUnwindSafe(|| rt.block_on(run_query(&mut a, *lo, *hi, *metric, post))));
                let rb = catch(AssertUnwindSafe(|| rt.block_on(run_query(&mut b, *lo, *hi, *metric, post))));
                let active = exp.splits.values().any(|s| s.0 == "dual" || s.0 == "backfill");
                let sa = match &ra { Ok(Ok(rows)) => show_rows_sorted(rows), Ok(Err(e)) => format!("ERR {}", e), Err(p) => format!("PANIC {}", p) };
                let sb = match &rb { Ok(Ok(rows)) => show_rows_sorted(rows), Ok(Err(e)) => format!("ERR {}", e), Err(p) => format!("PANIC {}", p) };
                // classification by the extracted classifier (model token: rows#class#ref#dedup)
                let class = model_toks
                    .and_then(|t| t.get(i))
                    .and_then(|t| t.split('#').nth(1).map(|s| s.to_string()))
                    .unwrap_or_else(|| fallback_class(post, &exp.all_rows, *lo, *hi, *metric));
                report.bump(&format!("E.query.post.{}", if post.starts_with("raw") { "raw" } else { post }));
                report.bump(&format!("E.query.class.{}", class));
                report.bump(if active { "E.query.during_dual_or_backfill" } else { "E.query.no_active_split" });
                if !exp.splits.is_empty() && !active { report.bump("E.query.in_preparation"); }
                if sa != sb {
                    // a known class explains a deviation only while a split is active, and only
                    // in its own direction: identical rows collapse = fewer rows than without
                    // split, an undeduplicated projection = more rows
                    let na = if sa.is_empty() { 0 } else { sa.split(';').count() };
                    let nb = if sb.is_empty() { 0 } else { sb.split(';').count() };
                    let errored = sa.starts_with("ERR") || sa.starts_with("PANIC") || sb.starts_with("ERR") || sb.starts_with("PANIC");
                    let cname = match class.as_str() {
                        _ if !active || errored => "",
                        "aggregate" => "aggregate-inflated",
                        "projection" if na > nb => "projection-not-deduplicated",
                        "identical" if na < nb => "identical-rows-collapsed",
                        _ => "",
                    };
                    let what = format!("op {}: {} during the split returns {{{}}}, without split {{{}}}", i, sql_of(*lo, *hi, *metric, post), clip(&sa), clip(&sb));
                    if cname.is_empty() {
                        bad.push((String::new(), what));
                    } else {
                        // known classes: count all, record a few (the report keeps 50 entries)
                        report.bump(&format!("E.known_class_violation.{}", cname));
                        let seen = *report.histogram.get(&format!("E.known_class_violation.{}", cname)).unwrap_or(&0);
                        if seen <= 3 {
                            bad.push((cname.into(), what));
                        }
                    }
                }
                format!("{}#{}#{}#{}", sa, class, sb, active as u8)
            }
        };
        toks.push(tok);
    }
    HOutcome { impl_out: toks.join("|"), bad, queries }
}

/// every query comes after a write that was flushed (otherwise `metrics` is the
/// empty default table, whose schema the generated SQL does not fit)
/// and every back-fill runs once per shard, on a planted split with two new
/// shards and an 8-byte split point
fn well_formed(ops: &[Op]) -> bool {
    let mut written = false;
    let mut flushed = false;
    let mut valid: BTreeMap<u32, bool> = BTreeMap::new();
    let mut backfilled: HashSet<u32> = HashSet::new();
    for o in ops {
        match o {
            Op::W { .. } | Op::Wf { .. } => written = true,
            Op::Hh { .. } => { written = true; flushed = true; }
            Op::F => flushed = written,
            Op::Q { .. } if !flushed => return false,
            Op::S { sid, news, point } => { valid.insert(*sid, news.len() == 2 && point.len() == 8); }
            Op::C { sid } => { valid.remove(sid); }
            Op::B { sid } => {
                if valid.get(sid) != Some(&true) || !backfilled.insert(*sid) {
                    return false;
                }
            }
            _ => {}
        }
    }
    true
}

fn clip(s: &str) -> String {
    if s.len() > 300 { format!("{}…", &s[..300]) } else { s.to_string() }
}

fn rc<T>(r: &Result<cardinalsin::Result<T>, String>) -> String {
    match r {
        Ok(Ok(_)) => "ok".into(),
        Ok(Err(cardinalsin::Error::InvalidSchema(_))) => "err1".into(),
        Ok(Err(cardinalsin::Error::Internal(_))) => "err2".into(),
        Ok(Err(_)) => "err9".into(),
        Err(_) => "panic".into(),
    }
}

/// used only when no model runner is available
fn fallback_class(post: &str, all: &[Row], lo: i64, hi: i64, metric: Option<u64>) -> String {
    if !post.starts_with("raw") {
        return "aggregate".into();
    }
    let f: Vec<char> = post.chars().collect();
    if !(f[3] == '1' && f[4] == '1') {
        return "projection".into();
    }
    let mut seen = HashSet::new();
    for r in all {
        let t = r.ts.unwrap();
        if t < lo || t > hi || metric.map(|m| Some(m) != r.metric).unwrap_or(false) {
            continue;
        }
        let key = format!("{},{},{}", t, r.metric.unwrap(), if f[5] == '1' { format!("{:?}", r.rest) } else { String::new() });
        if !seen.insert(key) {
            return "identical".into();
        }
    }
    "none".into()
}

fn be(sp: i64) -> Vec<u8> {
    sp.to_be_bytes().to_vec()
}

fn gen_rows(rng: &mut Rng, c_base: i64, first_metric: u64, n: usize, three: bool, report: &mut Report, pool: &mut Vec<Row>) -> Vec<Row> {
    let mut rows = Vec::new();
    for k in 0..n {
        let mut r = if k > 0 && !pool.is_empty() && rng.chance(1, 6) {
            report.bump("R.row.exact_duplicate");
            pool[rng.below(pool.len() as u64) as usize].clone()
        } else {
            Row {
                ts: Some(c_base.saturating_add(rng.range_i64(-3, 4))),
                metric: Some(if k == 0 || rng.chance(3, 4) { first_metric } else { 1 + rng.below(3) }),
                rest: vec![rng.range_i64(1, 3) as i128, rng.range_i64(1, 3) as i128],
            }
        };
        if k == 0 {
            r.metric = Some(first_metric);
        }
        r.rest.truncate(2);
        if three {
            r.rest.push(1);
        }
        rows.push(r);
    }
    // several series of one metric at one timestamp
    if rows.len() >= 2 && rows[0].ts == rows[1].ts && rows[0].metric == rows[1].metric && rows[0].rest != rows[1].rest {
        report.bump("R.batch.series_sharing_ts_and_metric");
    }
    pool.extend(rows.iter().cloned());
    rows
}

fn distinct_shard_metrics(base: i64) -> Vec<u64> {
    // metrics whose shard ids differ pairwise (the id keeps 16 bits of the metric hash)
    let mut out: Vec<u64> = Vec::new();
    let mut ids: HashSet<String> = HashSet::new();
    for m in 1..40u64 {
        if ids.insert(shard_id_string(m, base)) {
            out.push(m);
        }
        if out.len() == 3 {
            break;
        }
    }
    out
}

const HIST_OFFSET: i64 = 1_000_000; // historical rows lie this far below the live ones

/// End-to-end scenario: one long-lived QueryNode / metadata client per pipeline,
/// queries at every stage of a split that only ever moves forward
/// (no split -> Preparation -> DualWrite -> Backfill), optionally with
/// historical chunks that the real splitter back-fills.
fn gen_ecase(rng: &mut Rng, report: &mut Report) -> HCase {
    let base: i64 = 1_700_000_000_000_000_000;
    let hist_base = base - HIST_OFFSET;
    report.bump("E.base.realistic");
    let metrics = distinct_shard_metrics(base);
    let nsh = rng.range_usize(1, metrics.len().min(2));
    let shard_metric: BTreeMap<u32, u64> = (0..nsh).map(|i| (i as u32 + 1, metrics[i])).collect();
    let flush_rows = rng.range_usize(1, 9);
    let with_hist = rng.chance(3, 5);
    if with_hist { report.bump("E.scenario.with_historical_chunks"); }
    let mut ops: Vec<Op> = Vec::new();
    let mut pool: Vec<Row> = Vec::new();
    let mut hpool: Vec<Row> = Vec::new();
    let main = 1u32;
    let other = if nsh == 2 { Some(2u32) } else { None };
    let mut next_new = 10u32;
    let pick_sid = |rng: &mut Rng| if let Some(o) = other { if rng.chance(1, 3) { o } else { main } } else { main };

    // queries: live window, historical window, or both
    let queries = |rng: &mut Rng, ops: &mut Vec<Op>, n: usize, hist_bias: bool| {
        for _ in 0..n {
            let q = if with_hist && (hist_bias && rng.chance(2, 3) || rng.chance(1, 4)) {
                if rng.chance(1, 4) {
                    let mut q = gen_query(rng, base);
                    if let Op::Q { lo, .. } = &mut q { *lo = hist_base - 10; }
                    q
                } else {
                    gen_query(rng, hist_base)
                }
            } else {
                gen_query(rng, base)
            };
            ops.push(q);
        }
    };
    let writes = |rng: &mut Rng, ops: &mut Vec<Op>, pool: &mut Vec<Row>, report: &mut Report, n: usize| {
        for _ in 0..n {
            let sid = pick_sid(rng);
            let k = rng.range_usize(1, 5);
            let rows = gen_rows(rng, base, shard_metric[&sid], k, false, report, pool);
            ops.push(Op::W { sid, schema: 1, rows });
        }
        ops.push(Op::F);
    };

    // stage 0: data that existed before the split
    if with_hist {
        for _ in 0..rng.range_usize(1, 3) {
            let k = rng.range_usize(1, 5);
            let rows = gen_rows(rng, hist_base, shard_metric[&main], k, false, report, &mut hpool);
            ops.push(Op::Hh { sid: main, rows });
        }
    }
    // stage 1: no split anywhere
    let n = rng.range_usize(1, 2);
    writes(rng, &mut ops, &mut pool, report, n);
    let n = rng.range_usize(1, 2);
    queries(rng, &mut ops, n, false);
    // stage 2: Preparation
    let sp = if with_hist && rng.chance(1, 2) { hist_base + rng.range_i64(-2, 3) } else { base + rng.range_i64(-3, 4) };
    next_new += 2;
    ops.push(Op::S { sid: main, news: vec![next_new - 1, next_new], point: be(sp) });
    queries(rng, &mut ops, 1, false);
    if rng.chance(1, 2) {
        writes(rng, &mut ops, &mut pool, report, 1);
        queries(rng, &mut ops, 1, false);
    }
    // stage 3: DualWrite
    ops.push(Op::P { sid: main, phase: "dual" });
    queries(rng, &mut ops, 1, false);
    if let Some(o) = other {
        if rng.chance(1, 2) {
            next_new += 2;
            ops.push(Op::S { sid: o, news: vec![next_new - 1, next_new], point: be(base + rng.range_i64(-2, 3)) });
            if rng.chance(2, 3) {
                ops.push(Op::P { sid: o, phase: if rng.chance(1, 2) { "dual" } else { "backfill" } });
            }
        }
    }
    let n = rng.range_usize(1, 2);
    writes(rng, &mut ops, &mut pool, report, n);
    let n = rng.range_usize(2, 3);
    queries(rng, &mut ops, n, false);
    // stage 4: Backfill — the splitter's real back-fill when there is something to copy
    match rng.below(10) {
        0..=6 => {
            if with_hist || rng.chance(1, 2) { ops.push(Op::B { sid: main }); } else { ops.push(Op::P { sid: main, phase: "backfill" }); }
            let n = rng.range_usize(2, 3);
            queries(rng, &mut ops, n, true);
            if rng.chance(2, 3) {
                writes(rng, &mut ops, &mut pool, report, 1);
                let n = rng.range_usize(1, 2);
                queries(rng, &mut ops, n, true);
            }
        }
        _ => {}
    }
    ops.push(Op::F);
    ops.push(Op::X);
    HCase { flush_rows, object_store_backend: rng.chance(1, 2), base, shard_metric, ops }
}

fn gen_hcase(rng: &mut Rng, e2e: bool, report: &mut Report) -> HCase {
    if e2e {
        return gen_ecase(rng, report);
    }
    let base: i64 = if e2e {
        1_700_000_000_000_000_000
    } else {
        *rng.pick(&[1_700_000_000_000_000_000, 1_700_000_000_000_000_000, 0, i64::MAX - 10, i64::MIN + 10])
    };
    report.bump(&format!("{}.base.{}", if e2e { "E" } else { "R" }, match base { 0 => "zero", b if b == i64::MAX - 10 => "i64_max", b if b == i64::MIN + 10 => "i64_min", _ => "realistic" }));
    let metrics = distinct_shard_metrics(base);
    let nsh = rng.range_usize(1, metrics.len().min(2));
    let shard_metric: BTreeMap<u32, u64> = (0..nsh).map(|i| (i as u32 + 1, metrics[i])).collect();
    // "noflush" cases never flush (so batches whose timestamp type the flush path
    // rejects can be written); they use one schema throughout, because a schema
    // change flushes the buffer
    let noflush = !e2e && rng.chance(1, 6);
    // (batches whose timestamp is neither Int64 nor Timestamp(ns) are not generated:
    // compute_shard_id then derives the shard from the wall clock, not from the data)
    let noflush_schema = *rng.pick(&[1u32, 2, 3]);
    let flush_rows = if noflush { 100_000 } else { rng.range_usize(1, 9) };
    let mut ops = Vec::new();
    let mut pool: Vec<Row> = Vec::new();
    let mut next_new = 1u32;
    let nops = rng.range_usize(4, 14);
    let object_store_backend = rng.chance(1, 2);
    let mut started: Vec<u32> = Vec::new();
    let mut valid_split: BTreeMap<u32, bool> = BTreeMap::new();
    let mut backfilled: HashSet<u32> = HashSet::new();
    let with_hist = !noflush && rng.chance(1, 3);
    for _ in 0..nops {
        let sid = 1 + rng.below(nsh as u64) as u32;
        if with_hist && rng.chance(1, 6) {
            let n = rng.range_usize(1, 4);
            let rows = gen_rows(rng, base, shard_metric[&sid], n, false, report, &mut pool);
            ops.push(Op::Hh { sid, rows });
        }
        if with_hist && valid_split.get(&sid) == Some(&true) && !backfilled.contains(&sid) && rng.chance(1, 4) {
            backfilled.insert(sid);
            ops.push(Op::B { sid });
        }
        let r = rng.below(100);
        if r < 14 || (started.is_empty() && r < 40) {
            let nn = if e2e || rng.chance(9, 10) { 2 } else { *rng.pick(&[0usize, 1, 3]) };
            let news: Vec<u32> = (0..nn).map(|_| { next_new += 1; next_new }).collect();
            let sp = base.saturating_add(rng.range_i64(-3, 4));
            let point = if e2e || rng.chance(11, 12) {
                be(sp)
            } else {
                report.bump("R.split_point.malformed");
                let mut p = be(sp);
                if rng.chance(1, 2) { p.truncate(4); } else { p.push(0); }
                p
            };
            valid_split.insert(sid, news.len() == 2 && point.len() == 8);
            ops.push(Op::S { sid, news, point });
            if !started.contains(&sid) { started.push(sid); }
            // usually move straight into a dual-write phase
            if rng.chance(4, 5) {
                ops.push(Op::P { sid, phase: if rng.chance(1, 2) { "dual" } else { "backfill" } });
            }
        } else if r < 26 {
            let phase = *rng.pick(&["prep", "dual", "dual", "backfill", "backfill", "cutover", "cleanup"]);
            ops.push(Op::P { sid, phase });
        } else if r < 31 {
            ops.push(Op::C { sid });
            valid_split.remove(&sid);
            started.retain(|s| *s != sid);
        } else if r < 86 {
            let schema = if e2e { 1 } else if noflush { noflush_schema } else { *rng.pick(&[1u32, 1, 1, 1, 2, 3]) };
            let n = rng.range_usize(1, 5);
            let rows = gen_rows(rng, base, shard_metric[&sid], n, schema == 3, report, &mut pool);
            report.bump(&format!("R.write.schema{}", schema));
            if object_store_backend && !e2e && schema == 1 && rng.chance(1, 4) {
                // transient failure reading the split state during this write, then (usually) the retry
                ops.push(Op::Wf { sid, schema, rows: rows.clone() });
                if rng.chance(2, 3) {
                    ops.push(Op::W { sid, schema, rows });
                }
            } else {
                ops.push(Op::W { sid, schema, rows });
            }
        } else if !noflush {
            ops.push(Op::F);
        }
        if e2e && rng.chance(1, 5) && ops.iter().any(|o| matches!(o, Op::W { .. })) {
            ops.push(Op::F);
            ops.push(gen_query(rng, base));
        }
    }
    if e2e {
        // make sure the split is active for the final block of queries in most cases
        if rng.chance(4, 5) {
            let sid = 1 + rng.below(nsh as u64) as u32;
            if !started.contains(&sid) {
                next_new += 2;
                ops.push(Op::S { sid, news: vec![next_new - 1, next_new], point: be(base + rng.range_i64(-2, 3)) });
            }
            ops.push(Op::P { sid, phase: if rng.chance(1, 2) { "dual" } else { "backfill" } });
            let n = rng.range_usize(2, 5);
            let rows = gen_rows(rng, base, shard_metric[&sid], n, false, report, &mut pool);
            ops.push(Op::W { sid, schema: 1, rows });
        }
        if ops.iter().any(|o| matches!(o, Op::W { .. })) {
            ops.push(Op::F);
            for _ in 0..rng.range_usize(3, 6) {
                ops.push(gen_query(rng, base));
            }
        }
    }
    if !noflush {
        ops.push(Op::F);
    }
    ops.push(Op::X);
    HCase { flush_rows, object_store_backend, base, shard_metric, ops }
}

fn gen_query(rng: &mut Rng, base: i64) -> Op {
    let (lo, hi) = match rng.below(4) {
        0 => (base - 10, base + 10),
        1 => (base - 3, base + rng.range_i64(-1, 4)),
        2 => (base + rng.range_i64(-3, 1), base + 4),
        _ => (base + rng.range_i64(-3, 0), base + rng.range_i64(0, 4)),
    };
    let metric = if rng.chance(1, 3) { Some(1 + rng.below(3)) } else { None };
    let post = match rng.below(12) {
        0..=3 => "raw111",
        4 => "raw110",
        5 => "raw101",
        6 => "raw011",
        7 => "raw001",
        8 => "count",
        9 => "sum1",
        10 => "cbk",
        _ => "cbm",
    };
    Op::Q { lo, hi, metric, post: post.to_string() }
}

/// Proof-derived corner cases that always run first.
fn corpus() -> Vec<HCase> {
    let base = 1_700_000_000_000_000_000i64;
    let m = distinct_shard_metrics(base)[0];
    let rw = |t: i64, h: i128, v: i128| Row { ts: Some(base + t), metric: Some(m), rest: vec![h, v] };
    let sm: BTreeMap<u32, u64> = [(1u32, m)].into_iter().collect();
    let q = |post: &str| Op::Q { lo: base - 10, hi: base + 10, metric: None, post: post.to_string() };
    let mut cases = Vec::new();
    // the witness of the Coq development: two series at one timestamp, a row at the split point
    for phase in ["dual", "backfill"] {
        cases.push(HCase {
            flush_rows: 1, object_store_backend: phase == "backfill", base, shard_metric: sm.clone(),
            ops: vec![
                Op::S { sid: 1, news: vec![11, 12], point: be(base + 1) }, Op::P { sid: 1, phase },
                Op::W { sid: 1, schema: 1, rows: vec![rw(0, 1, 10), rw(0, 2, 20), rw(1, 1, 30), rw(2, 1, 40)] },
                Op::F, q("raw111"), q("count"), q("sum1"), q("cbk"), q("cbm"), q("raw101"), q("raw110"), Op::X,
            ],
        });
    }
    // one long-lived client: a query before the split, then DualWrite, dual writes, and the
    // same query again right away (a stale "no active split" answer would leave the copies in)
    for backend in [true, false] {
        cases.push(HCase {
            flush_rows: 1, object_store_backend: backend, base, shard_metric: sm.clone(),
            ops: vec![
                Op::W { sid: 1, schema: 1, rows: vec![rw(0, 1, 10), rw(1, 1, 20)] }, Op::F, q("raw111"), q("count"),
                Op::S { sid: 1, news: vec![11, 12], point: be(base + 1) }, q("raw111"),
                Op::P { sid: 1, phase: "dual" }, q("raw111"),
                Op::W { sid: 1, schema: 1, rows: vec![rw(0, 2, 30), rw(1, 2, 40), rw(2, 2, 50)] }, Op::F, q("raw111"), q("raw110"),
                Op::P { sid: 1, phase: "backfill" }, q("raw111"),
                Op::W { sid: 1, schema: 1, rows: vec![rw(3, 3, 60)] }, Op::F, q("raw111"), Op::X,
            ],
        });
    }
    // historical chunks + the splitter's real back-fill; time windows that select only the
    // historical chunks and their back-fill copies (no dual-write chunk among them)
    for backend in [false, true] {
        let h = |t: i64, host: i128, v: i128| Row { ts: Some(base - HIST_OFFSET + t), metric: Some(m), rest: vec![host, v] };
        let hq = |post: &str| Op::Q { lo: base - HIST_OFFSET - 10, hi: base - HIST_OFFSET + 10, metric: None, post: post.to_string() };
        cases.push(HCase {
            flush_rows: 2, object_store_backend: backend, base, shard_metric: sm.clone(),
            ops: vec![
                Op::Hh { sid: 1, rows: vec![h(0, 1, 1), h(1, 1, 2), h(2, 2, 3)] },
                Op::Hh { sid: 1, rows: vec![h(1, 2, 4), h(3, 1, 5)] },
                Op::W { sid: 1, schema: 1, rows: vec![rw(0, 1, 10)] }, Op::F, hq("raw111"), q("raw111"),
                Op::S { sid: 1, news: vec![11, 12], point: be(base - HIST_OFFSET + 1) },
                Op::P { sid: 1, phase: "dual" }, hq("raw111"),
                Op::W { sid: 1, schema: 1, rows: vec![rw(1, 1, 20), rw(2, 2, 30)] }, Op::F,
                Op::B { sid: 1 }, hq("raw111"), hq("raw110"), hq("count"), q("raw111"),
                Op::Q { lo: base - HIST_OFFSET - 10, hi: base + 10, metric: None, post: "raw111".into() },
                Op::X,
            ],
        });
    }
    // a transient failure reading split-states.json exactly during a dual write: the write must
    // be refused (and may be retried), never acknowledged with the old-shard copy only
    for phase in ["dual", "backfill"] {
        cases.push(HCase {
            flush_rows: 2, object_store_backend: true, base, shard_metric: sm.clone(),
            ops: vec![
                Op::S { sid: 1, news: vec![11, 12], point: be(base + 1) }, Op::P { sid: 1, phase },
                Op::W { sid: 1, schema: 1, rows: vec![rw(0, 1, 1)] },
                Op::Wf { sid: 1, schema: 1, rows: vec![rw(0, 2, 2), rw(1, 2, 3), rw(2, 2, 4)] },
                Op::W { sid: 1, schema: 1, rows: vec![rw(0, 2, 2), rw(1, 2, 3), rw(2, 2, 4)] },
                Op::Wf { sid: 1, schema: 1, rows: vec![rw(1, 3, 5)] },
                Op::F, Op::X,
            ],
        });
    }
    // genuine exact duplicates
    cases.push(HCase {
        flush_rows: 1, object_store_backend: false, base, shard_metric: sm.clone(),
        ops: vec![
            Op::S { sid: 1, news: vec![11, 12], point: be(base + 1) }, Op::P { sid: 1, phase: "dual" },
            Op::W { sid: 1, schema: 1, rows: vec![rw(0, 1, 10), rw(0, 1, 10), rw(2, 1, 40)] },
            Op::F, q("raw111"), Op::X,
        ],
    });
    // every phase in turn; Timestamp(ns) batch rejected by the dual-write path but kept by the old shard
    cases.push(HCase {
        flush_rows: 3, object_store_backend: true, base, shard_metric: sm.clone(),
        ops: vec![
            Op::W { sid: 1, schema: 1, rows: vec![rw(-1, 1, 1)] },
            Op::S { sid: 1, news: vec![11, 12], point: be(base) },
            Op::W { sid: 1, schema: 1, rows: vec![rw(-1, 1, 2), rw(0, 1, 3)] },
            Op::P { sid: 1, phase: "dual" },
            Op::W { sid: 1, schema: 1, rows: vec![rw(-1, 2, 4), rw(0, 2, 5), rw(1, 2, 6)] },
            Op::W { sid: 1, schema: 2, rows: vec![rw(0, 3, 7)] },
            Op::P { sid: 1, phase: "backfill" },
            Op::W { sid: 1, schema: 1, rows: vec![rw(0, 1, 8)] },
            Op::P { sid: 1, phase: "cutover" },
            Op::W { sid: 1, schema: 1, rows: vec![rw(1, 1, 9)] },
            Op::C { sid: 1 },
            Op::W { sid: 1, schema: 1, rows: vec![rw(2, 1, 10)] },
            Op::F, Op::X,
        ],
    });
    // split point extremes and malformed states
    cases.push(HCase {
        flush_rows: 2, object_store_backend: false, base, shard_metric: sm.clone(),
        ops: vec![
            Op::S { sid: 1, news: vec![11, 12], point: be(i64::MIN) }, Op::P { sid: 1, phase: "dual" },
            Op::W { sid: 1, schema: 1, rows: vec![rw(0, 1, 1), rw(1, 1, 2)] },
            Op::S { sid: 1, news: vec![13, 14], point: be(i64::MAX) }, Op::P { sid: 1, phase: "dual" },
            Op::W { sid: 1, schema: 1, rows: vec![rw(0, 1, 3)] },
            Op::S { sid: 1, news: vec![15], point: be(base) }, Op::P { sid: 1, phase: "dual" },
            Op::W { sid: 1, schema: 1, rows: vec![rw(-1, 1, 4)] },
            Op::W { sid: 1, schema: 1, rows: vec![rw(1, 1, 5)] },
            Op::S { sid: 1, news: vec![16, 17], point: vec![0, 0, 0, 1] }, Op::P { sid: 1, phase: "backfill" },
            Op::W { sid: 1, schema: 1, rows: vec![rw(0, 1, 6)] },
            Op::F, Op::X,
        ],
    });
    cases
}

fn check_hcase(rt: &tokio::runtime::Runtime, c: &HCase, origin: &str, model: &mut Model, report: &mut Report, seed_tag: Value) {
    let line = encode_h(c, &c.ops);
    let has_dual_write = c.ops.iter().any(|o| matches!(o, Op::P { phase, .. } if *phase == "dual" || *phase == "backfill")) && c.ops.iter().any(|o| matches!(o, Op::W { .. }));
    report.case(if has_dual_write { Some(&line) } else { None });
    report.bump(&format!("origin.{}", origin));
    report.bump(if c.object_store_backend { "backend.object_store" } else { "backend.in_memory" });
    let model_out = model.ask(&line);
    let mtoks: Option<Vec<String>> = if model.is_null() { None } else { Some(model_out.split('|').map(|s| s.to_string()).collect()) };
    let out = run_hcase(rt, c, &c.ops, mtoks.as_deref(), report);
    report.impl_runs += 1 + out.queries;
    report.sample(json!({"history": clip(&line), "impl": clip(&out.impl_out), "model": clip(&model_out)}));
    if !model.is_null() && model_out != out.impl_out {
        let mut scratch = Report::new("scratch");
        let shrunk = ddmin(&c.ops, &mut |cand: &[Op]| {
            if !well_formed(cand) {
                return false;
            }
            let l = encode_h(c, cand);
            let m = model.ask(&l);
            let mt: Vec<String> = m.split('|').map(|s| s.to_string()).collect();
            run_hcase(rt, c, cand, Some(&mt), &mut scratch).impl_out != m
        });
        let sl = encode_h(c, &shrunk);
        let sm = model.ask(&sl);
        let smt: Vec<String> = sm.split('|').map(|s| s.to_string()).collect();
        let so = run_hcase(rt, c, &shrunk, Some(&smt), &mut scratch);
        report.disagreement(json!({
            "correspondence": "Model/Dedup.v (hstep / query_state) vs Ingester::write + metadata split state + QueryNode::query",
            "case": {"kind": "H", "seed": seed_tag, "line": line}, "impl": out.impl_out, "model": model_out,
            "shrunk": sl, "shrunk_impl": so.impl_out, "shrunk_model": sm,
            "oracle_failed": !out.bad.is_empty(),
        }));
    }
    for (class, what) in &out.bad {
        report.oracle_violation(class, what, json!({"kind": "H", "seed": seed_tag, "line": line}));
    }
}

fn check_dcase(c: &DCase, origin: &str, model: &mut Model, report: &mut Report, seed_tag: Value) {
    let (line, out, bad) = run_dcase(c, None);
    let nontrivial = c.batches.iter().filter(|b| !b.drop_ts && !b.drop_metric && b.ts_name == "timestamp" && b.metric_name == "metric_name").map(|b| b.rows.len()).sum::<usize>() >= 2;
    let key = format!("{:?}{:?}{}", c.ts_type, c.str_type, line);
    report.case(if nontrivial { Some(key.as_str()) } else { None });
    report.bump(&format!("origin.{}", origin));
    report.impl_runs += 1;
    let (differs, model_out) = model.differs(&line, &out);
    report.sample(json!({"dedup_case": clip(&line), "types": format!("{:?}/{:?}", c.ts_type, c.str_type), "impl": clip(&out), "model": clip(&model_out)}));
    if out != line.replacen('D', "R", 1) {
        report.bump("D.case.rows_dropped");
    }
    if differs {
        let all: Vec<usize> = (0..c.batches.len()).collect();
        let shrunk = ddmin(&all, &mut |cand: &[usize]| {
            let (l, o, _) = run_dcase(c, Some(cand));
            model.differs(&l, &o).0
        });
        let (sl, so, sbad) = run_dcase(c, Some(&shrunk));
        let sm = model.ask(&sl);
        report.disagreement(json!({
            "correspondence": "Model/Dedup.v dedup_batches vs query::dedup::dedup_batches",
            "case": {"kind": "D", "seed": seed_tag, "types": format!("{:?}/{:?}", c.ts_type, c.str_type), "line": line},
            "impl": out, "model": model_out, "shrunk": sl, "shrunk_impl": so, "shrunk_model": sm,
            "oracle_failed": !bad.is_empty() || !sbad.is_empty(),
        }));
    }
    for what in &bad {
        report.oracle_violation("", what, json!({"kind": "D", "seed": seed_tag, "types": format!("{:?}/{:?}", c.ts_type, c.str_type), "line": line}));
    }
}

fn dcorpus() -> Vec<DCase> {
    let b = |rows: Vec<(Option<i64>, Option<u64>, Option<i128>, Option<i128>)>| DBatch { ts_name: "timestamp", metric_name: "metric_name", drop_ts: false, drop_metric: false, rows };
    let mut out = Vec::new();
    for (tt, st) in [(TsType::Int64, StrType::Utf8), (TsType::Int64, StrType::View), (TsType::NanosUtc, StrType::View), (TsType::Micros, StrType::Dict), (TsType::Nanos, StrType::Large)] {
        // two series of one metric at one timestamp, present in two batches (old + new shard)
        let rows = vec![(Some(100), Some(1), Some(1), Some(10)), (Some(100), Some(1), Some(2), Some(20)), (Some(200), Some(1), Some(1), Some(30))];
        out.push(DCase { ts_type: tt, str_type: st, batches: vec![b(rows.clone()), b(rows.clone())] });
        // NULL metric vs empty-string metric, NULL timestamps, a batch that is dropped entirely, an empty batch
        out.push(DCase { ts_type: tt, str_type: st, batches: vec![
            b(vec![(Some(100), None, Some(1), Some(1)), (Some(100), Some(0), Some(1), Some(1)), (None, Some(1), Some(1), Some(1)), (None, Some(1), Some(1), Some(1))]),
            b(vec![(Some(100), None, Some(1), Some(1)), (Some(100), Some(0), Some(1), Some(1))]),
            b(vec![]),
            b(vec![(Some(100), Some(0), Some(1), None), (Some(100), Some(0), None, Some(1)), (Some(100), Some(0), Some(1), None)]),
        ] });
    }
    out
}

fn main() {
    let args = Args::parse();
    csv_common::quiet_panics();
    let rt = tokio::runtime::Builder::new_current_thread().enable_all().build().unwrap();
    let mut model = Model::spawn(&args.model);
    let mut report = Report::new("C15");
    report.max_samples = 6;

    if let Some(path) = &args.replay {
        let txt = std::fs::read_to_string(path).expect("replay file");
        let v: Value = serde_json::from_str(&txt).expect("replay json");
        let v = if v.get("kind").is_some() { v } else { v["case"].clone() };
        let kind = v["kind"].as_str().unwrap_or("");
        let seed = v["seed"]["case_seed"].as_u64().unwrap_or(0);
        let e2e = v["seed"]["e2e"].as_bool().unwrap_or(false);
        let corpus_idx = v["seed"]["corpus"].as_u64();
        let mut scratch = Report::new("scratch");
        let failed = if kind == "D" {
            let c = match corpus_idx { Some(i) => dcorpus()[i as usize].clone(), None => gen_dcase(&mut Rng::new(seed), &mut scratch) };
            let (line, out, bad) = run_dcase(&c, None);
            let m = model.ask(&line);
            println!("case : {}\ntypes: {:?}/{:?}\nimpl : {}\nmodel: {}\noracle failures: {:?}", line, c.ts_type, c.str_type, out, m, bad);
            !bad.is_empty() || (!model.is_null() && m != out)
        } else {
            let c = match corpus_idx { Some(i) => corpus()[i as usize].clone(), None => gen_hcase(&mut Rng::new(seed), e2e, &mut scratch) };
            let line = encode_h(&c, &c.ops);
            let m = model.ask(&line);
            let mt: Vec<String> = m.split('|').map(|s| s.to_string()).collect();
            let out = run_hcase(&rt, &c, &c.ops, if model.is_null() { None } else { Some(&mt) }, &mut scratch);
            println!("case : {}\nimpl : {}\nmodel: {}\noracle failures: {:?}", line, out.impl_out, m, out.bad);
            !out.bad.is_empty() || (!model.is_null() && m != out.impl_out)
        };
        std::process::exit(if failed { 1 } else { 0 });
    }

    let (n_d, n_r, n_e) = if args.thorough() { (20_000, 2_000, 400) } else { (600, 120, 45) };
    let mut rng = Rng::new(args.seed);

    for (i, c) in dcorpus().iter().enumerate() {
        check_dcase(c, "corpus", &mut model, &mut report, json!({"corpus": i}));
    }
    for (i, c) in corpus().iter().enumerate() {
        check_hcase(&rt, c, "corpus", &mut model, &mut report, json!({"corpus": i}));
    }
    for _ in 0..n_d {
        let s = rng.next_u64();
        let c = gen_dcase(&mut Rng::new(s), &mut report);
        check_dcase(&c, "random.dedup", &mut model, &mut report, json!({"case_seed": s}));
    }
    for _ in 0..n_r {
        let s = rng.next_u64();
        let c = gen_hcase(&mut Rng::new(s), false, &mut report);
        check_hcase(&rt, &c, "random.routing", &mut model, &mut report, json!({"case_seed": s, "e2e": false}));
    }
    for _ in 0..n_e {
        let s = rng.next_u64();
        let c = gen_hcase(&mut Rng::new(s), true, &mut report);
        check_hcase(&rt, &c, "random.end_to_end", &mut model, &mut report, json!({"case_seed": s, "e2e": true}));
    }
    report.notes.push(format!("model calls: {}", model.calls));
    report.notes.push("writes under an injected split-state GET fault (op Wf, object-store backend) are judged by the oracle only: the model has no fault step and treats the refused write as a no-op".to_string());
    report.write(&args.out);
}
