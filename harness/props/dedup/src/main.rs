use arrow_array::{Int64Array, RecordBatch, StringArray, TimestampNanosecondArray};
use arrow_schema::{DataType, Field, Schema, TimeUnit};
use cardinalsin::ingester::{Ingester, IngesterConfig};
use cardinalsin::metadata::{LocalMetadataClient, MetadataClient};
use cardinalsin::query::{QueryConfig, QueryNode};
use cardinalsin::schema::MetricSchema;
use cardinalsin::sharding::{ShardKey, SplitPhase};
use cardinalsin::StorageConfig;
use object_store::memory::InMemory;
use std::sync::Arc;

fn batch(ts: Vec<i64>, m: Vec<&str>, h: Vec<&str>, v: Vec<i64>) -> RecordBatch {
    let schema = Arc::new(Schema::new(vec![
        Field::new("timestamp", DataType::Int64, false),
        Field::new("metric_name", DataType::Utf8, false),
        Field::new("host", DataType::Utf8, false),
        Field::new("value_i64", DataType::Int64, false),
    ]));
    RecordBatch::try_new(schema, vec![Arc::new(Int64Array::from(ts)), Arc::new(StringArray::from(m)), Arc::new(StringArray::from(h)), Arc::new(Int64Array::from(v))]).unwrap()
}
fn shard_id(metric: &str, ts: i64) -> String {
    let k = ShardKey::new(0, metric, ts);
    format!("shard-{:x}", u64::from_be_bytes(k.to_bytes()[0..8].try_into().unwrap()))
}
fn main() {
    let rt = tokio::runtime::Builder::new_current_thread().enable_all().build().unwrap();
    {
        let b1 = batch(vec![100, 100, 200], vec!["cpu", "cpu", "cpu"], vec!["h1", "h2", "h1"], vec![1, 2, 3]);
        let b2 = batch(vec![100, 100, 200], vec!["cpu", "cpu", "cpu"], vec!["h1", "h2", "h1"], vec![1, 2, 3]);
        let r = cardinalsin::query::verif::dedup_batches(vec![b1, b2]).unwrap();
        println!("DEDUP direct (Utf8):\n{}", arrow::util::pretty::pretty_format_batches(&r).unwrap());
    }
    rt.block_on(async {
        let store: Arc<dyn object_store::ObjectStore> = Arc::new(InMemory::new());
        let meta: Arc<dyn MetadataClient> = Arc::new(LocalMetadataClient::new());
        let sc = StorageConfig::default();
        let mut cfg = IngesterConfig { flush_row_count: 1, ..Default::default() };
        cfg.wal.enabled = false;
        let ing = Ingester::new(cfg, store.clone(), meta.clone(), sc.clone(), MetricSchema::default_metrics());
        let base: i64 = 1_700_000_000_000_000_000;
        let sid = shard_id("cpu", base);
        println!("sid {}", sid);
        meta.start_split(&sid, vec!["new-a".into(), "new-b".into()], (base + 100).to_be_bytes().to_vec()).await.unwrap();
        meta.update_split_progress(&sid, 0.0, SplitPhase::DualWrite).await.unwrap();
        let b = batch(vec![base + 50, base + 50, base + 100, base + 150], vec!["cpu"; 4], vec!["h1", "h2", "h1", "h1"], vec![1, 2, 3, 4]);
        println!("write: {:?}", ing.write(b).await);
        for c in meta.list_chunks().await.unwrap() { println!("chunk {} rows {}", c.chunk_path, c.row_count); }
        let qn = QueryNode::new(QueryConfig::default(), store.clone(), meta.clone(), sc.clone()).await.unwrap();
        for sql in [
            format!("SELECT * FROM metrics WHERE timestamp >= {} AND timestamp <= {}", base, base + 1000),
            format!("SELECT COUNT(*) FROM metrics WHERE timestamp >= {} AND timestamp <= {}", base, base + 1000),
            format!("SELECT SUM(value_i64) FROM metrics WHERE timestamp >= {} AND timestamp <= {}", base, base + 1000),
            format!("SELECT timestamp, value_i64 FROM metrics WHERE timestamp >= {} AND timestamp <= {}", base, base + 1000),
            format!("SELECT timestamp, metric_name, COUNT(*) AS c FROM metrics WHERE timestamp >= {} AND timestamp <= {} GROUP BY timestamp, metric_name", base, base + 1000),
        ] {
            let r = qn.query(&sql).await;
            match r {
                Ok(bs) => { println!("Q {}\n{}", sql, arrow::util::pretty::pretty_format_batches(&bs).unwrap()); for b in &bs { println!("  schema {:?}", b.schema().fields().iter().map(|f| (f.name().clone(), f.data_type().clone())).collect::<Vec<_>>()); } }
                Err(e) => println!("Q {} ERR {:?}", sql, e),
            }
        }
        // Timestamp(ns) batch in dual-write
        let schema = Arc::new(Schema::new(vec![
            Field::new("timestamp", DataType::Timestamp(TimeUnit::Nanosecond, None), false),
            Field::new("metric_name", DataType::Utf8, false),
        ]));
        let b2 = RecordBatch::try_new(schema, vec![Arc::new(TimestampNanosecondArray::from(vec![base + 7])), Arc::new(StringArray::from(vec!["cpu"]))]).unwrap();
        println!("write ts-ns: {:?}", ing.write(b2).await);
        println!("buffer {:?}", ing.buffer_stats().await);
    });
}
