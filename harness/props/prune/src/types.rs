//! Case representation shared by the legs of csv-prune: predicate trees,
//! statistics, rows; their canonical text (the line protocol of
//! modelrun-prune); parsing that text back (replays); conversion to the
//! implementation's types.
use cardinalsin::metadata::{ColumnPredicate, ColumnStats, PredicateValue};
use serde_json::Value;
use std::collections::HashMap;

/// interned column names (id = index); 0 / 1 are the time columns the
/// extraction skips
pub const COLS: [&str; 19] = [
    "timestamp", "time", "value_i64", "value_f64", "value_u64", "host", "service", "metric_name", "flag", "nostats",
    // families of names that differ only in case or share a prefix (ids 10..)
    "Value_i64", "VALUE_I64", "value_i64_max", "Host", "HOST", "host_name", "Value_f64", "value", "Value",
];
/// columns whose names collide when case is ignored / one is a prefix of the other
pub const FAMILIES: [&[usize]; 4] = [&[2, 10, 11, 12], &[5, 13, 14, 15], &[3, 16], &[17, 18]];
pub fn col_id(name: &str) -> usize {
    COLS.iter().position(|c| *c == name).unwrap_or(99)
}

#[derive(Clone, Debug, PartialEq)]
pub enum PV {
    S(String),
    I(i64),
    F(u64), // bit pattern
    B(bool),
    N,
}

#[derive(Clone, Debug, PartialEq)]
pub enum Pred {
    Eq(usize, PV),
    Ne(usize, PV),
    Lt(usize, PV),
    Le(usize, PV),
    Gt(usize, PV),
    Ge(usize, PV),
    In(usize, Vec<PV>),
    NotIn(usize, Vec<PV>),
    Bt(usize, PV, PV),
    And(Box<Pred>, Box<Pred>),
    Or(Box<Pred>, Box<Pred>),
    Not(Box<Pred>),
}

/// a row value; integers cover i64 and u64
#[derive(Clone, Debug, PartialEq)]
pub enum V {
    Null,
    Bool(bool),
    Int(i128),
    Float(u64),
    Str(String),
}

pub type Row = Vec<(usize, V)>;

#[derive(Clone, Debug)]
pub struct Stat {
    pub col: usize,
    pub min: Value,
    pub max: Value,
    pub has_nulls: bool,
}

pub fn hex(b: &[u8]) -> String {
    b.iter().map(|x| format!("{:02x}", x)).collect()
}
pub fn unhex(s: &str) -> Vec<u8> {
    (0..s.len() / 2).map(|i| u8::from_str_radix(&s[2 * i..2 * i + 2], 16).unwrap()).collect()
}

pub fn show_pv(v: &PV) -> String {
    match v {
        PV::S(s) => format!("s:{}", hex(s.as_bytes())),
        PV::I(i) => format!("i:{}", i),
        PV::F(b) => format!("f:{}", b),
        PV::B(b) => format!("b:{}", *b as u8),
        PV::N => "n".into(),
    }
}

pub fn show_pred(p: &Pred) -> String {
    let list = |vs: &Vec<PV>| vs.iter().map(|v| format!(" {}", show_pv(v))).collect::<String>();
    match p {
        Pred::Eq(c, v) => format!("eq {} {}", c, show_pv(v)),
        Pred::Ne(c, v) => format!("ne {} {}", c, show_pv(v)),
        Pred::Lt(c, v) => format!("lt {} {}", c, show_pv(v)),
        Pred::Le(c, v) => format!("le {} {}", c, show_pv(v)),
        Pred::Gt(c, v) => format!("gt {} {}", c, show_pv(v)),
        Pred::Ge(c, v) => format!("ge {} {}", c, show_pv(v)),
        Pred::In(c, vs) => format!("in {} {}{}", c, vs.len(), list(vs)),
        Pred::NotIn(c, vs) => format!("nin {} {}{}", c, vs.len(), list(vs)),
        Pred::Bt(c, a, b) => format!("bt {} {} {}", c, show_pv(a), show_pv(b)),
        Pred::And(a, b) => format!("and {} {}", show_pred(a), show_pred(b)),
        Pred::Or(a, b) => format!("or {} {}", show_pred(a), show_pred(b)),
        Pred::Not(a) => format!("not {}", show_pred(a)),
    }
}

/// serde_json::Value as the model's `json` (what as_i64 / as_f64 / as_str can see)
pub fn show_json(v: &Value) -> String {
    match v {
        Value::Null => "N".into(),
        Value::Bool(b) => format!("B{}", *b as u8),
        Value::Number(n) => {
            if let Some(i) = n.as_i64() {
                format!("I:{}", i)
            } else if let Some(u) = n.as_u64() {
                format!("I:{}", u)
            } else {
                format!("F:{}", n.as_f64().unwrap().to_bits())
            }
        }
        Value::String(s) => format!("S:{}", hex(s.as_bytes())),
        _ => "O".into(),
    }
}

pub fn show_stats(st: &[Stat]) -> String {
    let mut s = format!("{}", st.len());
    for x in st {
        s.push_str(&format!(" {} {} {} {}", x.col, show_json(&x.min), show_json(&x.max), x.has_nulls as u8));
    }
    s
}

pub fn show_v(v: &V) -> String {
    match v {
        V::Null => "n".into(),
        V::Bool(b) => format!("b:{}", *b as u8),
        V::Int(i) => format!("i:{}", i),
        V::Float(b) => format!("f:{}", b),
        V::Str(s) => format!("s:{}", hex(s.as_bytes())),
    }
}

pub fn show_rows(rows: &[Row]) -> String {
    let mut s = format!("{}", rows.len());
    for r in rows {
        s.push_str(&format!(" {}", r.len()));
        for (c, v) in r {
            s.push_str(&format!(" {} {}", c, show_v(v)));
        }
    }
    s
}

// ------------------------------------------------------------- parsing ----
pub struct Toks<'a> {
    it: std::str::SplitWhitespace<'a>,
}
impl<'a> Toks<'a> {
    pub fn new(s: &'a str) -> Self {
        Toks { it: s.split_whitespace() }
    }
    pub fn next(&mut self) -> &'a str {
        self.it.next().expect("unexpected end of case text")
    }
    pub fn num(&mut self) -> usize {
        self.next().parse().unwrap()
    }
}

pub fn parse_pv(t: &str) -> PV {
    if t == "n" {
        PV::N
    } else if let Some(h) = t.strip_prefix("s:") {
        PV::S(String::from_utf8(unhex(h)).expect("utf8 literal"))
    } else if let Some(i) = t.strip_prefix("i:") {
        PV::I(i.parse().unwrap())
    } else if let Some(f) = t.strip_prefix("f:") {
        PV::F(f.parse().unwrap())
    } else {
        PV::B(t == "b:1")
    }
}

pub fn parse_pred(t: &mut Toks) -> Pred {
    let k = t.next();
    match k {
        "eq" | "ne" | "lt" | "le" | "gt" | "ge" => {
            let c = t.num();
            let v = parse_pv(t.next());
            match k {
                "eq" => Pred::Eq(c, v),
                "ne" => Pred::Ne(c, v),
                "lt" => Pred::Lt(c, v),
                "le" => Pred::Le(c, v),
                "gt" => Pred::Gt(c, v),
                _ => Pred::Ge(c, v),
            }
        }
        "in" | "nin" => {
            let c = t.num();
            let n = t.num();
            let vs = (0..n).map(|_| parse_pv(t.next())).collect();
            if k == "in" { Pred::In(c, vs) } else { Pred::NotIn(c, vs) }
        }
        "bt" => {
            let c = t.num();
            let a = parse_pv(t.next());
            let b = parse_pv(t.next());
            Pred::Bt(c, a, b)
        }
        "and" => {
            let a = parse_pred(t);
            let b = parse_pred(t);
            Pred::And(Box::new(a), Box::new(b))
        }
        "or" => {
            let a = parse_pred(t);
            let b = parse_pred(t);
            Pred::Or(Box::new(a), Box::new(b))
        }
        "not" => Pred::Not(Box::new(parse_pred(t))),
        other => panic!("bad predicate token {}", other),
    }
}

pub fn parse_json(t: &str) -> Value {
    if t == "N" {
        Value::Null
    } else if t == "B0" {
        Value::Bool(false)
    } else if t == "B1" {
        Value::Bool(true)
    } else if t == "O" {
        Value::Array(vec![])
    } else if let Some(i) = t.strip_prefix("I:") {
        if let Ok(x) = i.parse::<i64>() {
            Value::from(x)
        } else {
            Value::from(i.parse::<u64>().unwrap())
        }
    } else if let Some(f) = t.strip_prefix("F:") {
        float_json(f64::from_bits(f.parse().unwrap()))
    } else if let Some(s) = t.strip_prefix("S:") {
        Value::String(String::from_utf8(unhex(s)).unwrap())
    } else {
        panic!("bad json token {}", t)
    }
}

/// what `json!(f)` gives: a float Number, or Null for NaN / infinities
pub fn float_json(f: f64) -> Value {
    serde_json::Number::from_f64(f).map(Value::Number).unwrap_or(Value::Null)
}

pub fn parse_stats(t: &mut Toks) -> Vec<Stat> {
    let n = t.num();
    (0..n)
        .map(|_| {
            let col = t.num();
            let min = parse_json(t.next());
            let max = parse_json(t.next());
            let has_nulls = t.next() == "1";
            Stat { col, min, max, has_nulls }
        })
        .collect()
}

pub fn parse_v(t: &str) -> V {
    if t == "n" {
        V::Null
    } else if let Some(h) = t.strip_prefix("s:") {
        V::Str(String::from_utf8(unhex(h)).unwrap())
    } else if let Some(i) = t.strip_prefix("i:") {
        V::Int(i.parse().unwrap())
    } else if let Some(f) = t.strip_prefix("f:") {
        V::Float(f.parse().unwrap())
    } else {
        V::Bool(t == "b:1")
    }
}

pub fn parse_rows(t: &mut Toks) -> Vec<Row> {
    let n = t.num();
    (0..n)
        .map(|_| {
            let m = t.num();
            (0..m)
                .map(|_| {
                    let c = t.num();
                    (c, parse_v(t.next()))
                })
                .collect()
        })
        .collect()
}

// ------------------------------------------- to / from the implementation ----
pub fn cname(c: usize) -> String {
    COLS.get(c).map(|s| s.to_string()).unwrap_or_else(|| format!("col{}", c))
}

pub fn to_impl_pv(v: &PV) -> PredicateValue {
    match v {
        PV::S(s) => PredicateValue::String(s.clone()),
        PV::I(i) => PredicateValue::Int64(*i),
        PV::F(b) => PredicateValue::Float64(f64::from_bits(*b)),
        PV::B(b) => PredicateValue::Boolean(*b),
        PV::N => PredicateValue::Null,
    }
}

pub fn to_impl(p: &Pred) -> ColumnPredicate {
    match p {
        Pred::Eq(c, v) => ColumnPredicate::Eq(cname(*c), to_impl_pv(v)),
        Pred::Ne(c, v) => ColumnPredicate::NotEq(cname(*c), to_impl_pv(v)),
        Pred::Lt(c, v) => ColumnPredicate::Lt(cname(*c), to_impl_pv(v)),
        Pred::Le(c, v) => ColumnPredicate::LtEq(cname(*c), to_impl_pv(v)),
        Pred::Gt(c, v) => ColumnPredicate::Gt(cname(*c), to_impl_pv(v)),
        Pred::Ge(c, v) => ColumnPredicate::GtEq(cname(*c), to_impl_pv(v)),
        Pred::In(c, vs) => ColumnPredicate::In(cname(*c), vs.iter().map(to_impl_pv).collect()),
        Pred::NotIn(c, vs) => ColumnPredicate::NotIn(cname(*c), vs.iter().map(to_impl_pv).collect()),
        Pred::Bt(c, a, b) => ColumnPredicate::Between(cname(*c), to_impl_pv(a), to_impl_pv(b)),
        Pred::And(a, b) => ColumnPredicate::And(Box::new(to_impl(a)), Box::new(to_impl(b))),
        Pred::Or(a, b) => ColumnPredicate::Or(Box::new(to_impl(a)), Box::new(to_impl(b))),
        Pred::Not(a) => ColumnPredicate::Not(Box::new(to_impl(a))),
    }
}

pub fn from_impl_pv(v: &PredicateValue) -> PV {
    match v {
        PredicateValue::String(s) => PV::S(s.clone()),
        PredicateValue::Int64(i) => PV::I(*i),
        PredicateValue::Float64(f) => PV::F(f.to_bits()),
        PredicateValue::Boolean(b) => PV::B(*b),
        PredicateValue::Null => PV::N,
    }
}

pub fn from_impl(p: &ColumnPredicate) -> Pred {
    match p {
        ColumnPredicate::Eq(c, v) => Pred::Eq(col_id(c), from_impl_pv(v)),
        ColumnPredicate::NotEq(c, v) => Pred::Ne(col_id(c), from_impl_pv(v)),
        ColumnPredicate::Lt(c, v) => Pred::Lt(col_id(c), from_impl_pv(v)),
        ColumnPredicate::LtEq(c, v) => Pred::Le(col_id(c), from_impl_pv(v)),
        ColumnPredicate::Gt(c, v) => Pred::Gt(col_id(c), from_impl_pv(v)),
        ColumnPredicate::GtEq(c, v) => Pred::Ge(col_id(c), from_impl_pv(v)),
        ColumnPredicate::In(c, vs) => Pred::In(col_id(c), vs.iter().map(from_impl_pv).collect()),
        ColumnPredicate::NotIn(c, vs) => Pred::NotIn(col_id(c), vs.iter().map(from_impl_pv).collect()),
        ColumnPredicate::Between(c, a, b) => Pred::Bt(col_id(c), from_impl_pv(a), from_impl_pv(b)),
        ColumnPredicate::And(a, b) => Pred::And(Box::new(from_impl(a)), Box::new(from_impl(b))),
        ColumnPredicate::Or(a, b) => Pred::Or(Box::new(from_impl(a)), Box::new(from_impl(b))),
        ColumnPredicate::Not(a) => Pred::Not(Box::new(from_impl(a))),
    }
}

pub fn to_impl_stats(st: &[Stat]) -> HashMap<String, ColumnStats> {
    let mut m = HashMap::new();
    for s in st {
        // the model's association list answers the first entry of a name
        m.entry(cname(s.col)).or_insert(ColumnStats { min: s.min.clone(), max: s.max.clone(), has_nulls: s.has_nulls });
    }
    m
}

pub fn from_impl_stats(m: &HashMap<String, ColumnStats>) -> Vec<Stat> {
    let mut v: Vec<Stat> = m
        .iter()
        .map(|(k, s)| Stat { col: col_id(k), min: s.min.clone(), max: s.max.clone(), has_nulls: s.has_nulls })
        .collect();
    v.sort_by_key(|s| s.col);
    v
}
