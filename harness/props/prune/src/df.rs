//! Leg D: the row semantics assumed by the model (`sat`: SQL three-valued
//! logic, Int x Float compared in f64, strings by bytes) against the real
//! engine: the generated rows become a DataFusion MemTable, the predicate tree
//! becomes SQL, and `SELECT (<pred>) FROM t` must give TT / FF / NULL exactly
//! where this harness's evaluator (which is compared with the model's `sat` in
//! leg A) does.  Outside the comparison: NaN and zeros (Arrow orders floats by
//! totalOrder: -0.0 < +0.0, NaN greatest — IEEE semantics are an explicit
//! assumption of C12), comparisons across type classes.
use crate::eval::{self, Tv};
use crate::gen::{kind_of, Case, Kind};
use crate::types::*;
use csv_common::Report;
use datafusion::arrow::array::{Array, ArrayRef, BooleanArray, Float64Array, Int64Array, StringArray, TimestampNanosecondArray, UInt64Array};
use datafusion::arrow::datatypes::TimeUnit;
use datafusion::arrow::datatypes::{DataType, Field, Schema};
use datafusion::arrow::record_batch::RecordBatch;
use datafusion::datasource::MemTable;
use datafusion::prelude::SessionContext;
use serde_json::json;
use std::sync::Arc;

fn lit_sql(col: usize, v: &PV) -> Option<String> {
    let k = kind_of(col);
    match (v, k) {
        (PV::N, _) => Some("NULL".into()),
        (PV::I(i), Kind::Int | Kind::UInt | Kind::Float) => Some(format!("{}", i)),
        (PV::F(b), Kind::Int | Kind::UInt | Kind::Float) => {
            let f = f64::from_bits(*b);
            if f.is_finite() && f != 0.0 { Some(format!("{:?}", f)) } else { None }
        }
        (PV::S(s), Kind::Str) => Some(format!("'{}'", s.replace('\'', "''"))),
        (PV::B(b), Kind::Bool) => Some(format!("{}", b)),
        _ => None,
    }
}

fn pred_sql(p: &Pred) -> Option<String> {
    let ok_col = |c: usize| [2usize, 3, 4, 5, 7, 8].contains(&c);
    let atom = |c: usize, op: &str, v: &PV| -> Option<String> {
        if !ok_col(c) {
            return None;
        }
        Some(format!("({} {} {})", cname(c), op, lit_sql(c, v)?))
    };
    match p {
        Pred::Eq(c, v) => atom(*c, "=", v),
        Pred::Ne(c, v) => atom(*c, "<>", v),
        Pred::Lt(c, v) => atom(*c, "<", v),
        Pred::Le(c, v) => atom(*c, "<=", v),
        Pred::Gt(c, v) => atom(*c, ">", v),
        Pred::Ge(c, v) => atom(*c, ">=", v),
        Pred::In(c, vs) | Pred::NotIn(c, vs) => {
            if !ok_col(*c) || vs.is_empty() {
                return None;
            }
            let items: Option<Vec<String>> = vs.iter().map(|v| lit_sql(*c, v)).collect();
            Some(format!("({} {}IN ({}))", cname(*c), if matches!(p, Pred::NotIn(..)) { "NOT " } else { "" }, items?.join(", ")))
        }
        Pred::Bt(c, lo, hi) => {
            if !ok_col(*c) {
                return None;
            }
            // DataFusion 44.0 derives the common type of a BETWEEN from the
            // column and the LOW bound only (optimizer/src/analyzer/type_coercion.rs
            // passes low_type twice) and casts the high bound into it, truncating a
            // float: where that differs from coercing all three operands, skip.
            if matches!(kind_of(*c), Kind::Int | Kind::UInt) && matches!(hi, PV::F(_)) && !matches!(lo, PV::F(_)) {
                return None;
            }
            Some(format!("({} BETWEEN {} AND {})", cname(*c), lit_sql(*c, lo)?, lit_sql(*c, hi)?))
        }
        Pred::And(a, b) => Some(format!("({} AND {})", pred_sql(a)?, pred_sql(b)?)),
        Pred::Or(a, b) => Some(format!("({} OR {})", pred_sql(a)?, pred_sql(b)?)),
        Pred::Not(a) => Some(format!("(NOT {})", pred_sql(a)?)),
    }
}

/// rows whose every value has the kind of its column and is no NaN / zero float
fn usable_rows(c: &Case) -> Vec<&Row> {
    c.rows
        .iter()
        .filter(|r| {
            r.iter().all(|(col, v)| match (v, kind_of(*col)) {
                (V::Null, _) => true,
                (V::Int(i), Kind::Int) => *i >= i64::MIN as i128 && *i <= i64::MAX as i128,
                (V::Int(i), Kind::UInt) => *i >= 0,
                (V::Float(b), Kind::Float) => {
                    let f = f64::from_bits(*b);
                    !f.is_nan() && f != 0.0
                }
                (V::Str(_), Kind::Str) => [5usize, 7].contains(col),
                (V::Bool(_), Kind::Bool) => true,
                _ => false,
            })
        })
        .collect()
}

pub fn check_d(rt: &tokio::runtime::Runtime, c: &Case, report: &mut Report) -> bool {
    let Some(sql_pred) = pred_sql(&c.pred) else { return false };
    let rows = usable_rows(c);
    if rows.is_empty() {
        return false;
    }
    let schema = Arc::new(Schema::new(vec![
        Field::new("rid", DataType::Int64, false),
        Field::new("value_i64", DataType::Int64, true),
        Field::new("value_f64", DataType::Float64, true),
        Field::new("value_u64", DataType::UInt64, true),
        Field::new("host", DataType::Utf8, true),
        Field::new("metric_name", DataType::Utf8, true),
        Field::new("flag", DataType::Boolean, true),
    ]));
    let get = |r: &Row, col: usize| eval::rget(col, r);
    let cols: Vec<ArrayRef> = vec![
        Arc::new(Int64Array::from((0..rows.len() as i64).collect::<Vec<_>>())),
        Arc::new(Int64Array::from(rows.iter().map(|r| match get(r, 2) { V::Int(i) => Some(i as i64), _ => None }).collect::<Vec<_>>())),
        Arc::new(Float64Array::from(rows.iter().map(|r| match get(r, 3) { V::Float(b) => Some(f64::from_bits(b)), _ => None }).collect::<Vec<_>>())),
        Arc::new(UInt64Array::from(rows.iter().map(|r| match get(r, 4) { V::Int(i) => Some(i as u64), _ => None }).collect::<Vec<_>>())),
        Arc::new(StringArray::from(rows.iter().map(|r| match get(r, 5) { V::Str(s) => Some(s), _ => None }).collect::<Vec<_>>())),
        Arc::new(StringArray::from(rows.iter().map(|r| match get(r, 7) { V::Str(s) => Some(s), _ => None }).collect::<Vec<_>>())),
        Arc::new(BooleanArray::from(rows.iter().map(|r| match get(r, 8) { V::Bool(b) => Some(b), _ => None }).collect::<Vec<_>>())),
    ];
    let batch = RecordBatch::try_new(schema.clone(), cols).expect("batch");
    let sql = format!("SELECT rid, {} AS p FROM t ORDER BY rid", sql_pred);
    let res: Result<Vec<Option<bool>>, String> = csv_common::catch(std::panic::AssertUnwindSafe(|| rt.block_on(async {
        let ctx = SessionContext::new();
        let table = MemTable::try_new(schema.clone(), vec![vec![batch]]).map_err(|e| e.to_string())?;
        ctx.register_table("t", Arc::new(table)).map_err(|e| e.to_string())?;
        let df = ctx.sql(&sql).await.map_err(|e| e.to_string())?;
        let out = df.collect().await.map_err(|e| e.to_string())?;
        let mut v = Vec::new();
        for b in out {
            let col = b.column(1);
            if let Some(a) = col.as_any().downcast_ref::<BooleanArray>() {
                for i in 0..a.len() {
                    v.push(if a.is_null(i) { None } else { Some(a.value(i)) });
                }
            } else {
                // an all-NULL predicate column (NULL type)
                for _ in 0..col.len() {
                    v.push(None);
                }
            }
        }
        Ok(v)
    })))
    .unwrap_or_else(|p| Err(format!("engine panic: {}", p)));
    let engine = match res {
        Ok(v) => v,
        Err(_) => {
            report.bump("D.engine_error_skipped");
            return false;
        }
    };
    report.bump("D.cases_compared_with_datafusion");
    report.impl_runs += 1;
    let mine: Vec<Option<bool>> = rows
        .iter()
        .map(|r| match eval::sat(&c.pred, r) {
            Tv::T => Some(true),
            Tv::F => Some(false),
            Tv::U => None,
        })
        .collect();
    if engine != mine {
        report.disagreement(json!({
            "correspondence": "row semantics (Model/StatsPrune.v sat, via the harness row evaluator) vs DataFusion evaluating the same predicate on the same rows",
            "case": {"leg": "A", "line": c.line(), "sql": sql}, "impl": format!("{:?}", engine), "model": format!("{:?}", mine),
            "shrunk": c.line(), "oracle_failed": false,
        }));
        return true;
    }
    false
}

/// Records what the engine does where the model's IEEE reading differs (not judged).
pub fn engine_float_notes(rt: &tokio::runtime::Runtime, report: &mut Report) {
    let q = "SELECT CAST(-0.0 AS DOUBLE) < CAST(0.0 AS DOUBLE), CAST(-0.0 AS DOUBLE) = CAST(0.0 AS DOUBLE), CAST('NaN' AS DOUBLE) > CAST(5 AS DOUBLE), CAST(9007199254740996 AS DOUBLE) <= 9007199254740995, 9007199254740993 BETWEEN 0.5 AND 9007199254740992, 10 BETWEEN '10' AND 9";
    let r: Result<String, String> = rt.block_on(async {
        let ctx = SessionContext::new();
        let out = ctx.sql(q).await.map_err(|e| e.to_string())?.collect().await.map_err(|e| e.to_string())?;
        let b = &out[0];
        let mut s = Vec::new();
        for i in 0..b.num_columns() {
            let a = b.column(i).as_any().downcast_ref::<BooleanArray>().map(|a| a.value(0));
            s.push(format!("{:?}", a));
        }
        Ok(s.join(","))
    });
    report.notes.push(format!("engine semantics [-0.0 < 0.0, -0.0 = 0.0, NaN > 5, 2^53+4 as double <= 2^53+3, 2^53+1 BETWEEN 0.5 AND 2^53, 10 BETWEEN '10' AND 9]: {:?}", r));
}

/// Runs `sql` with DataFusion on a MemTable named `table_name` that has the
/// columns of `metrics` (plus a row id) and holds exactly `rows`.
fn run_sql(rt: &tokio::runtime::Runtime, table_name: &str, sql: &str, rows: &[Row]) -> Result<Vec<RecordBatch>, String> {
    let schema = Arc::new(Schema::new(vec![
        Field::new("rid", DataType::Int64, false),
        Field::new("timestamp", DataType::Timestamp(TimeUnit::Nanosecond, Some("UTC".into())), false),
        Field::new("metric_name", DataType::Utf8, true),
        Field::new("host", DataType::Utf8, true),
        Field::new("service", DataType::Utf8, true),
        Field::new("value_f64", DataType::Float64, true),
        Field::new("value_i64", DataType::Int64, true),
        Field::new("value_u64", DataType::UInt64, true),
    ]));
    let get = |r: &Row, col: usize| eval::rget(col, r);
    let st = |col: usize| -> ArrayRef {
        Arc::new(StringArray::from(rows.iter().map(|r| match get(r, col) { V::Str(s) => Some(s), _ => None }).collect::<Vec<_>>()))
    };
    let cols: Vec<ArrayRef> = vec![
        Arc::new(Int64Array::from((0..rows.len() as i64).collect::<Vec<_>>())),
        Arc::new(
            TimestampNanosecondArray::from(rows.iter().map(|r| match get(r, 0) { V::Int(i) => i as i64, _ => 0 }).collect::<Vec<_>>())
                .with_timezone("UTC"),
        ),
        st(7),
        st(5),
        st(6),
        Arc::new(Float64Array::from(rows.iter().map(|r| match get(r, 3) { V::Float(b) => Some(f64::from_bits(b)), _ => None }).collect::<Vec<_>>())),
        Arc::new(Int64Array::from(rows.iter().map(|r| match get(r, 2) { V::Int(i) => Some(i as i64), _ => None }).collect::<Vec<_>>())),
        Arc::new(UInt64Array::from(rows.iter().map(|r| match get(r, 4) { V::Int(i) => Some(i as u64), _ => None }).collect::<Vec<_>>())),
    ];
    let batch = RecordBatch::try_new(schema.clone(), cols).map_err(|e| e.to_string())?;
    // DataFusion's own planner can panic in a debug build (interval arithmetic on
    // i64 extremes): that is an engine error for this oracle, not a harness crash
    csv_common::catch(std::panic::AssertUnwindSafe(|| {
        rt.block_on(async {
            let ctx = SessionContext::new();
            let table = MemTable::try_new(schema.clone(), vec![vec![batch]]).map_err(|e| e.to_string())?;
            ctx.register_table(table_name, Arc::new(table)).map_err(|e| e.to_string())?;
            ctx.sql(sql).await.map_err(|e| e.to_string())?.collect().await.map_err(|e| e.to_string())
        })
    }))
    .unwrap_or_else(|p| Err(format!("engine panic: {}", p)))
}

/// Ground truth for leg C: the ids of the rows for which DataFusion itself
/// accepts `WHERE <clause>` on a table with the columns of `metrics`.
pub fn eval_where(rt: &tokio::runtime::Runtime, clause: &str, rows: &[Row]) -> Result<Vec<usize>, String> {
    let sql = format!("SELECT rid FROM t WHERE {} ORDER BY rid", clause);
    let out = run_sql(rt, "t", &sql, rows)?;
    let mut ids = Vec::new();
    for b in out {
        let a = b.column(0).as_any().downcast_ref::<Int64Array>().ok_or("rid type")?;
        for i in 0..a.len() {
            ids.push(a.value(i) as usize);
        }
    }
    Ok(ids)
}

/// Number of rows DataFusion answers for a whole statement over `metrics`
/// when the table holds exactly the chunk's rows.
pub fn eval_stmt(rt: &tokio::runtime::Runtime, sql: &str, rows: &[Row]) -> Result<usize, String> {
    Ok(run_sql(rt, "metrics", sql, rows)?.iter().map(|b| b.num_rows()).sum())
}
