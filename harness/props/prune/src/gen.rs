//! Generators: small per-column value domains (so literals, row values and
//! statistics collide at end points all the time), rows first, statistics =
//! the rows' true min / max, then perturbed (missing, mistyped, widened,
//! retyped), predicate trees over the same domains.
use crate::eval::{compare, int_as_f64, Cmp};
use crate::types::*;
use csv_common::{Report, Rng};
use serde_json::Value;
use std::cmp::Ordering;

#[derive(Clone, Copy, PartialEq, Debug)]
pub enum Kind {
    Int,
    UInt,
    Float,
    Str,
    Bool,
}

pub fn kind_of(c: usize) -> Kind {
    match c {
        2 | 10 | 11 | 12 => Kind::Int,
        3 | 16 | 17 | 18 => Kind::Float,
        4 => Kind::UInt,
        8 => Kind::Bool,
        _ => Kind::Str,
    }
}

const P53: i128 = 1 << 53;

fn int_domain(rng: &mut Rng, unsigned: bool) -> Vec<i128> {
    let base: i128 = if unsigned {
        *rng.pick(&[0i128, 7, P53, (1i128 << 63) - 2, (1i128 << 63), u64::MAX as i128 - 3])
    } else {
        *rng.pick(&[0i128, 5, 100, -7, P53, P53 + 2, -P53 - 3, i64::MAX as i128 - 3, i64::MIN as i128, 1_000_000])
    };
    let lo = if unsigned { 0 } else { i64::MIN as i128 };
    let hi = if unsigned { u64::MAX as i128 } else { i64::MAX as i128 };
    let step = *rng.pick(&[1i128, 1, 1, 2, 10]);
    (0..5).map(|k| (base + (k - 1) * step).clamp(lo, hi)).collect()
}

const FLOATS: [f64; 18] = [
    f64::NEG_INFINITY, -1e300, -2.5, -1.0, -0.0, 0.0, 5e-324, 0.5, 1.0, 1.5, 2.0, 9007199254740992.0,
    9007199254740994.0, 9007199254740996.0, 1e300, f64::INFINITY, f64::NAN, 100.0,
];

fn float_domain(rng: &mut Rng) -> Vec<u64> {
    let mut d: Vec<u64> = Vec::new();
    match rng.below(4) {
        0 => {
            // around zero, both signs of zero
            for f in [-1.0, -0.0, 0.0, 5e-324, 1.0] {
                d.push(f64::to_bits(f));
            }
        }
        1 => {
            // whole numbers (so integer-typed statistics can describe them)
            let b = *rng.pick(&[0i64, 5, 100, -7, 1 << 53, (1 << 53) + 2]);
            for k in 0..5 {
                d.push(((b + 2 * k - 2) as f64).to_bits());
            }
        }
        2 => {
            for _ in 0..5 {
                d.push(rng.pick(&FLOATS).to_bits());
            }
        }
        _ => {
            let b = rng.range_i64(-8, 8) as f64 / 4.0;
            for k in 0..5 {
                d.push((b + k as f64 * 0.25).to_bits());
            }
        }
    }
    if rng.chance(1, 6) {
        d.push(f64::NAN.to_bits());
    }
    if rng.chance(1, 8) {
        d.push(if rng.chance(1, 2) { f64::INFINITY.to_bits() } else { f64::NEG_INFINITY.to_bits() });
    }
    d
}

const STRS: [&str; 14] = ["", "a", "ab", "abc", "b", "B", "10", "9", "cpu", "memory", "é", "z", "zz", "~"];

fn str_domain(rng: &mut Rng) -> Vec<String> {
    (0..5).map(|_| rng.pick(&STRS).to_string()).collect()
}

#[derive(Clone)]
pub struct ColDom {
    pub col: usize,
    pub kind: Kind,
    pub vals: Vec<V>,
    /// the chunk carries no statistics for this column (a sibling of the family does)
    pub no_stats: bool,
}

pub fn gen_domain(rng: &mut Rng, col: usize) -> ColDom {
    let kind = kind_of(col);
    let vals = match kind {
        Kind::Int => int_domain(rng, false).into_iter().map(V::Int).collect(),
        Kind::UInt => int_domain(rng, true).into_iter().map(V::Int).collect(),
        Kind::Float => float_domain(rng).into_iter().map(V::Float).collect(),
        Kind::Str => str_domain(rng).into_iter().map(V::Str).collect(),
        Kind::Bool => vec![V::Bool(false), V::Bool(true)],
    };
    ColDom { col, kind, vals, no_stats: false }
}

/// 2-3 columns of one family (names differing only in case / sharing a
/// prefix), each with its own domain; a non-empty proper subset has statistics
pub fn gen_family_columns(rng: &mut Rng, report: &mut Report) -> Vec<ColDom> {
    let fam = *rng.pick(&FAMILIES);
    let n = rng.range_usize(2, fam.len().min(3));
    let mut cols: Vec<usize> = Vec::new();
    while cols.len() < n {
        let c = *rng.pick(fam);
        if !cols.contains(&c) {
            cols.push(c);
        }
    }
    let mut doms: Vec<ColDom> = cols.into_iter().map(|c| gen_domain(rng, c)).collect();
    // which members carry statistics: at least one does, at least one does not
    let with = rng.below(doms.len() as u64) as usize;
    let mut without = rng.below(doms.len() as u64 - 1) as usize;
    if without >= with {
        without += 1;
    }
    for (i, d) in doms.iter_mut().enumerate() {
        d.no_stats = i == without || (i != with && rng.chance(1, 2));
        if d.no_stats && COLS[d.col].chars().all(|c| !c.is_uppercase()) {
            report.bump("family.lower_case_member_without_stats");
        }
    }
    report.bump("family.cases");
    doms
}

pub fn gen_columns(rng: &mut Rng, report: &mut Report) -> Vec<ColDom> {
    if rng.chance(1, 4) {
        return gen_family_columns(rng, report);
    }
    let pool = [2usize, 3, 4, 5, 7, 8, 2, 3, 5];
    let n = rng.range_usize(1, 3);
    let mut cols: Vec<usize> = Vec::new();
    while cols.len() < n {
        let c = *rng.pick(&pool);
        if !cols.contains(&c) {
            cols.push(c);
        }
    }
    cols.into_iter().map(|c| gen_domain(rng, c)).collect()
}

pub fn gen_rows(rng: &mut Rng, doms: &[ColDom], report: &mut Report) -> Vec<Row> {
    let n = rng.range_usize(1, 5);
    (0..n)
        .map(|_| {
            doms.iter()
                .filter_map(|d| {
                    let r = rng.below(100);
                    if r < 8 {
                        report.bump("row.null");
                        Some((d.col, V::Null))
                    } else if r < 11 {
                        None // column absent from the row = NULL
                    } else if r < 15 {
                        // a value of another numeric kind in the column
                        report.bump("row.other_kind");
                        Some((d.col, match d.kind {
                            Kind::Int | Kind::UInt => V::Float(((rng.range_i64(-3, 8)) as f64).to_bits()),
                            Kind::Float => V::Int(rng.range_i64(-3, 8) as i128),
                            _ => V::Int(1),
                        }))
                    } else {
                        Some((d.col, rng.pick(&d.vals).clone()))
                    }
                })
                .collect()
        })
        .collect()
}

fn to_json(v: &V) -> Value {
    match v {
        V::Null => Value::Null,
        V::Bool(b) => Value::Bool(*b),
        V::Int(i) => {
            if *i < 0 {
                Value::from(*i as i64)
            } else {
                Value::from(*i as u64)
            }
        }
        V::Float(b) => float_json(f64::from_bits(*b)),
        V::Str(s) => Value::String(s.clone()),
    }
}

/// true min / max of the column's own kind over the rows (NULLs and NaNs ignored)
fn true_min_max(d: &ColDom, rows: &[Row]) -> Option<(V, V)> {
    let mut best: Option<(V, V)> = None;
    for r in rows {
        let x = crate::eval::rget(d.col, r);
        let same_kind = matches!(
            (&x, d.kind),
            (V::Int(_), Kind::Int) | (V::Int(_), Kind::UInt) | (V::Float(_), Kind::Float) | (V::Str(_), Kind::Str) | (V::Bool(_), Kind::Bool)
        );
        if !same_kind {
            continue;
        }
        if let V::Float(b) = &x {
            if f64::from_bits(*b).is_nan() {
                continue;
            }
        }
        best = Some(match best {
            None => (x.clone(), x.clone()),
            Some((lo, hi)) => {
                let nlo = if matches!(compare(&x, &lo), Cmp::Ord(Ordering::Less)) { x.clone() } else { lo };
                let nhi = if matches!(compare(&x, &hi), Cmp::Ord(Ordering::Greater)) { x.clone() } else { hi };
                (nlo, nhi)
            }
        });
    }
    best
}

fn step(v: &V, up: bool) -> V {
    match v {
        V::Int(i) => V::Int(if up { (*i + 1).min(u64::MAX as i128) } else { (*i - 1).max(i64::MIN as i128) }),
        V::Float(b) => {
            let f = f64::from_bits(*b);
            if !f.is_finite() {
                return v.clone();
            }
            V::Float((if up { f + f.abs().max(1.0) * 0.5 } else { f - f.abs().max(1.0) * 0.5 }).to_bits())
        }
        V::Str(s) => {
            if up {
                V::Str(format!("{}a", s))
            } else if s.is_empty() {
                V::Str(String::new())
            } else {
                V::Str(s[..s.len() - s.chars().last().unwrap().len_utf8()].to_string())
            }
        }
        other => other.clone(),
    }
}

pub fn gen_stats(rng: &mut Rng, doms: &[ColDom], rows: &[Row], report: &mut Report) -> Vec<Stat> {
    let mut out = Vec::new();
    for d in doms {
        if d.no_stats {
            continue;
        }
        let Some((lo, hi)) = true_min_max(d, rows) else {
            if rng.chance(1, 2) {
                // no value of the column's kind: statistics from the domain
                let a = rng.pick(&d.vals).clone();
                out.push(Stat { col: d.col, min: to_json(&a), max: to_json(&a), has_nulls: true });
                report.bump("stats.from_domain");
            }
            continue;
        };
        let has_nulls = rows.iter().any(|r| crate::eval::rget(d.col, r) == V::Null);
        let (mut min, mut max) = (to_json(&lo), to_json(&hi));
        let r = rng.below(100);
        if r < 8 {
            report.bump("stats.missing_column");
            continue;
        } else if r < 14 {
            report.bump("stats.null_bound");
            if rng.chance(1, 2) { min = Value::Null } else { max = Value::Null }
        } else if r < 18 {
            report.bump("stats.bool_or_array_bound");
            if rng.chance(1, 2) { min = Value::Bool(true) } else { max = Value::Array(vec![]) }
        } else if r < 26 {
            report.bump("stats.widened");
            min = to_json(&step(&lo, false));
            max = to_json(&step(&hi, true));
        } else if r < 34 {
            // another JSON type for the same numbers
            match d.kind {
                Kind::Int | Kind::UInt => {
                    report.bump("stats.int_column_float_typed");
                    if let (V::Int(a), V::Int(b)) = (&lo, &hi) {
                        min = float_json(int_as_f64(*a));
                        max = float_json(int_as_f64(*b));
                    }
                }
                Kind::Float => {
                    if let (V::Float(a), V::Float(b)) = (&lo, &hi) {
                        let (fa, fb) = (f64::from_bits(*a), f64::from_bits(*b));
                        if fa.is_finite() && fb.is_finite() && fa.fract() == 0.0 && fb.fract() == 0.0 && fa.abs() < 1.8e19 && fb.abs() < 1.8e19 {
                            report.bump("stats.float_column_int_typed");
                            min = if fa < 0.0 { Value::from(fa as i64) } else { Value::from(fa as u64) };
                            max = if fb < 0.0 { Value::from(fb as i64) } else { Value::from(fb as u64) };
                        }
                    }
                }
                Kind::Str => {
                    report.bump("stats.string_column_number_typed");
                    min = Value::from(1);
                    max = Value::from(2);
                }
                Kind::Bool => {}
            }
        } else if r < 38 {
            report.bump("stats.narrowed_wrong");
            max = min.clone();
        } else {
            report.bump("stats.true_min_max");
        }
        out.push(Stat { col: d.col, min, max, has_nulls });
    }
    if rng.chance(1, 25) && !out.is_empty() {
        // a second entry for a name never reaches the HashMap; the model's list keeps the first too
        let dup = out[0].clone();
        out.push(Stat { min: Value::Null, ..dup });
    }
    out
}

fn other_kind_literal(rng: &mut Rng) -> PV {
    match rng.below(6) {
        0 => PV::I(rng.range_i64(-3, 8)),
        1 => PV::F((rng.range_i64(-8, 16) as f64 / 2.0).to_bits()),
        2 => PV::S(rng.pick(&STRS).to_string()),
        3 => PV::B(rng.chance(1, 2)),
        4 => PV::N,
        _ => PV::F(rng.pick(&FLOATS).to_bits()),
    }
}

fn v_to_pv(v: &V) -> PV {
    match v {
        V::Null => PV::N,
        V::Bool(b) => PV::B(*b),
        V::Int(i) => PV::I((*i).clamp(i64::MIN as i128, i64::MAX as i128) as i64),
        V::Float(b) => PV::F(*b),
        V::Str(s) => PV::S(s.clone()),
    }
}

pub fn gen_literal(rng: &mut Rng, d: Option<&ColDom>, report: &mut Report) -> PV {
    let Some(d) = d else { return other_kind_literal(rng) };
    let r = rng.below(100);
    if r < 55 {
        v_to_pv(rng.pick(&d.vals))
    } else if r < 75 {
        report.bump("literal.neighbour");
        v_to_pv(&step(rng.pick(&d.vals), rng.chance(1, 2)))
    } else if r < 85 {
        // the same number in the other numeric type
        report.bump("literal.other_numeric_type");
        match rng.pick(&d.vals) {
            V::Int(i) => PV::F(int_as_f64(*i).to_bits()),
            V::Float(b) => {
                let f = f64::from_bits(*b);
                if f.is_finite() && f.abs() < 9e18 { PV::I(f as i64) } else { PV::F(*b) }
            }
            other => v_to_pv(other),
        }
    } else {
        report.bump("literal.other_kind");
        other_kind_literal(rng)
    }
}

pub fn gen_pred(rng: &mut Rng, doms: &[ColDom], depth: u32, report: &mut Report) -> Pred {
    let r = rng.below(100);
    if depth > 0 && r < 45 {
        let a = gen_pred(rng, doms, depth - 1, report);
        return if r < 18 {
            Pred::And(Box::new(a), Box::new(gen_pred(rng, doms, depth - 1, report)))
        } else if r < 36 {
            Pred::Or(Box::new(a), Box::new(gen_pred(rng, doms, depth - 1, report)))
        } else {
            Pred::Not(Box::new(a))
        };
    }
    // atom
    let (col, dom) = if rng.chance(1, 10) {
        (*rng.pick(&[9usize, 6, 0, 2, 5]), None)
    } else {
        let d = rng.pick(doms);
        (d.col, Some(d))
    };
    let dom = dom.or_else(|| doms.iter().find(|d| d.col == col));
    let k = rng.below(100);
    let v = gen_literal(rng, dom, report);
    if k < 14 {
        Pred::Eq(col, v)
    } else if k < 20 {
        Pred::Ne(col, v)
    } else if k < 34 {
        Pred::Lt(col, v)
    } else if k < 50 {
        Pred::Le(col, v)
    } else if k < 64 {
        Pred::Gt(col, v)
    } else if k < 80 {
        Pred::Ge(col, v)
    } else if k < 88 {
        let n = rng.range_usize(0, 3);
        let mut vs = vec![];
        for _ in 0..n {
            vs.push(gen_literal(rng, dom, report));
        }
        if rng.chance(1, 5) { Pred::NotIn(col, vs) } else { Pred::In(col, vs) }
    } else {
        let hi = gen_literal(rng, dom, report);
        Pred::Bt(col, v, hi)
    }
}

#[derive(Clone)]
pub struct Case {
    pub pred: Pred,
    pub stats: Vec<Stat>,
    pub rows: Vec<Row>,
}

impl Case {
    pub fn line(&self) -> String {
        format!("E {} {} {}", show_pred(&self.pred), show_stats(&self.stats), show_rows(&self.rows))
    }
    pub fn parse(line: &str) -> Case {
        let mut t = Toks::new(line);
        assert_eq!(t.next(), "E");
        let pred = parse_pred(&mut t);
        let stats = parse_stats(&mut t);
        let rows = parse_rows(&mut t);
        Case { pred, stats, rows }
    }
}

pub fn gen_case(rng: &mut Rng, report: &mut Report) -> Case {
    let doms = gen_columns(rng, report);
    let rows = gen_rows(rng, &doms, report);
    let stats = gen_stats(rng, &doms, &rows, report);
    let depth = *rng.pick(&[0u32, 0, 1, 1, 2, 3]);
    let pred = gen_pred(rng, &doms, depth, report);
    Case { pred, stats, rows }
}
