//! Independent oracle pieces, written without looking at the model's code
//! paths: SQL three-valued row evaluation with native Rust numbers (i128 for
//! integers, f64 with IEEE comparisons, `as f64` for Int x Float), the
//! "row lies within the statistics" test, and the executable classifier of the
//! known class.
use crate::types::*;
use serde_json::Value;
use std::cmp::Ordering;

#[derive(Clone, Copy, Debug, PartialEq)]
pub enum Tv {
    T,
    F,
    U,
}
impl Tv {
    pub fn ch(self) -> char {
        match self {
            Tv::T => 'T',
            Tv::F => 'F',
            Tv::U => 'U',
        }
    }
}
fn and(a: Tv, b: Tv) -> Tv {
    if a == Tv::F || b == Tv::F {
        Tv::F
    } else if a == Tv::T && b == Tv::T {
        Tv::T
    } else {
        Tv::U
    }
}
fn or(a: Tv, b: Tv) -> Tv {
    if a == Tv::T || b == Tv::T {
        Tv::T
    } else if a == Tv::F && b == Tv::F {
        Tv::F
    } else {
        Tv::U
    }
}
fn not(a: Tv) -> Tv {
    match a {
        Tv::T => Tv::F,
        Tv::F => Tv::T,
        Tv::U => Tv::U,
    }
}

/// outcome of comparing two values
pub enum Cmp {
    Null,
    Ord(Ordering),
    Unordered, // NaN
    Cross,     // different type classes
}

fn fl(a: f64, b: f64) -> Cmp {
    match a.partial_cmp(&b) {
        Some(o) => Cmp::Ord(o),
        None => Cmp::Unordered,
    }
}

pub fn compare(a: &V, b: &V) -> Cmp {
    match (a, b) {
        (V::Null, _) | (_, V::Null) => Cmp::Null,
        (V::Bool(x), V::Bool(y)) => Cmp::Ord(x.cmp(y)),
        (V::Int(x), V::Int(y)) => Cmp::Ord(x.cmp(y)),
        (V::Int(x), V::Float(y)) => fl(int_as_f64(*x), f64::from_bits(*y)),
        (V::Float(x), V::Int(y)) => fl(f64::from_bits(*x), int_as_f64(*y)),
        (V::Float(x), V::Float(y)) => fl(f64::from_bits(*x), f64::from_bits(*y)),
        (V::Str(x), V::Str(y)) => Cmp::Ord(x.as_bytes().cmp(y.as_bytes())),
        _ => Cmp::Cross,
    }
}

/// i64 / u64 `as f64`
pub fn int_as_f64(x: i128) -> f64 {
    if x < 0 {
        (x as i64) as f64
    } else {
        (x as u64) as f64
    }
}

#[derive(Clone, Copy, PartialEq)]
pub enum Op {
    Eq,
    Ne,
    Lt,
    Le,
    Gt,
    Ge,
}

pub fn cmp_op(o: Op, a: &V, b: &V) -> Tv {
    let tb = |x: bool| if x { Tv::T } else { Tv::F };
    match compare(a, b) {
        Cmp::Null => Tv::U,
        Cmp::Cross => Tv::U, // convention shared with the model runner (xc = unknown)
        Cmp::Unordered => tb(o == Op::Ne),
        Cmp::Ord(c) => tb(match o {
            Op::Eq => c == Ordering::Equal,
            Op::Ne => c != Ordering::Equal,
            Op::Lt => c == Ordering::Less,
            Op::Le => c != Ordering::Greater,
            Op::Gt => c == Ordering::Greater,
            Op::Ge => c != Ordering::Less,
        }),
    }
}

pub fn lit(v: &PV) -> V {
    match v {
        PV::S(s) => V::Str(s.clone()),
        PV::I(i) => V::Int(*i as i128),
        PV::F(b) => V::Float(*b),
        PV::B(b) => V::Bool(*b),
        PV::N => V::Null,
    }
}

pub fn rget(c: usize, r: &Row) -> V {
    r.iter().find(|(k, _)| *k == c).map(|(_, v)| v.clone()).unwrap_or(V::Null)
}

/// type class of a value; NULL belongs to every class
fn class_of(v: &V) -> Option<u8> {
    match v {
        V::Null => None,
        V::Bool(_) => Some(0),
        V::Int(_) | V::Float(_) => Some(1),
        V::Str(_) => Some(2),
    }
}
/// all non-NULL members of a BETWEEN / IN group belong to one class
fn uniform(g: &[V]) -> bool {
    let mut seen: Option<u8> = None;
    for v in g {
        if let Some(c) = class_of(v) {
            match seen {
                None => seen = Some(c),
                Some(d) if d != c => return false,
                _ => {}
            }
        }
    }
    true
}
fn has_float(g: &[V]) -> bool {
    g.iter().any(|v| matches!(v, V::Float(_)))
}
/// the engine coerces the column and every literal of a BETWEEN / IN list to
/// one common type: Float64 as soon as one numeric member is a float
fn prom(fl: bool, v: &V) -> V {
    match (fl, v) {
        (true, V::Int(i)) => V::Float(int_as_f64(*i).to_bits()),
        _ => v.clone(),
    }
}

fn in_list(x: &V, vs: &[PV]) -> Tv {
    let lits: Vec<V> = vs.iter().map(lit).collect();
    let mut g = vec![x.clone()];
    g.extend(lits.iter().cloned());
    if !uniform(&g) {
        return Tv::U; // convention shared with the model runner (xg = unknown)
    }
    let fl = has_float(&g);
    let mut acc = Tv::F;
    for l in lits.iter().rev() {
        acc = or(cmp_op(Op::Eq, &prom(fl, x), &prom(fl, l)), acc);
    }
    acc
}

fn between(x: &V, lo: &V, hi: &V) -> Tv {
    let g = [x.clone(), lo.clone(), hi.clone()];
    if !uniform(&g) {
        return Tv::U;
    }
    let fl = has_float(&g);
    and(cmp_op(Op::Ge, &prom(fl, x), &prom(fl, lo)), cmp_op(Op::Le, &prom(fl, x), &prom(fl, hi)))
}

pub fn sat(p: &Pred, r: &Row) -> Tv {
    match p {
        Pred::Eq(c, v) => cmp_op(Op::Eq, &rget(*c, r), &lit(v)),
        Pred::Ne(c, v) => cmp_op(Op::Ne, &rget(*c, r), &lit(v)),
        Pred::Lt(c, v) => cmp_op(Op::Lt, &rget(*c, r), &lit(v)),
        Pred::Le(c, v) => cmp_op(Op::Le, &rget(*c, r), &lit(v)),
        Pred::Gt(c, v) => cmp_op(Op::Gt, &rget(*c, r), &lit(v)),
        Pred::Ge(c, v) => cmp_op(Op::Ge, &rget(*c, r), &lit(v)),
        Pred::In(c, vs) => in_list(&rget(*c, r), vs),
        Pred::NotIn(c, vs) => not(in_list(&rget(*c, r), vs)),
        Pred::Bt(c, lo, hi) => between(&rget(*c, r), &lit(lo), &lit(hi)),
        Pred::And(a, b) => and(sat(a, r), sat(b, r)),
        Pred::Or(a, b) => or(sat(a, r), sat(b, r)),
        Pred::Not(a) => not(sat(a, r)),
    }
}

/// the statistic as a row value, when it is a number or a string
fn bound(j: &Value) -> Option<V> {
    match j {
        Value::Number(n) => {
            if let Some(i) = n.as_i64() {
                Some(V::Int(i as i128))
            } else if let Some(u) = n.as_u64() {
                Some(V::Int(u as i128))
            } else {
                Some(V::Float(n.as_f64().unwrap().to_bits()))
            }
        }
        Value::String(s) => Some(V::Str(s.clone())),
        _ => None,
    }
}

fn le(a: &V, b: &V) -> bool {
    matches!(compare(a, b), Cmp::Ord(Ordering::Less) | Cmp::Ord(Ordering::Equal))
}

pub fn within(x: &V, s: &Stat) -> bool {
    if *x == V::Null {
        return true;
    }
    let lo = bound(&s.min).map(|b| le(&b, x)).unwrap_or(true);
    let hi = bound(&s.max).map(|b| le(x, &b)).unwrap_or(true);
    lo && hi
}

fn stat_of(c: usize, st: &[Stat]) -> Option<&Stat> {
    st.iter().find(|s| s.col == c)
}

pub fn in_stats(r: &Row, st: &[Stat]) -> bool {
    // every column that has statistics (first entry per name, as the HashMap holds one)
    let mut seen = Vec::new();
    for s in st {
        if seen.contains(&s.col) {
            continue;
        }
        seen.push(s.col);
        if !within(&rget(s.col, r), s) {
            return false;
        }
    }
    true
}

/// known class "int-literal-exact-vs-engine-coercion": a strict arm (=, <=, >=,
/// IN, BETWEEN) compares an integer literal with integer-typed statistics
/// exactly while the engine compares in f64 (float row value, or a float
/// member of the same BETWEEN / IN group), or the group mixes type classes
pub fn known_mixed(p: &Pred, st: &[Stat], r: &Row) -> bool {
    let is_int = |j: &Value| matches!(j, Value::Number(n) if n.is_i64() || n.is_u64());
    let atom = |c: usize, v: &PV| -> bool {
        match (stat_of(c, st), v, rget(c, r)) {
            (Some(s), PV::I(_), V::Float(_)) => is_int(&s.min) || is_int(&s.max),
            _ => false,
        }
    };
    let group = |c: usize, vs: &[PV]| -> bool {
        let Some(s) = stat_of(c, st) else { return false };
        let mut g = vec![rget(c, r)];
        g.extend(vs.iter().map(lit));
        !uniform(&g) || (has_float(&g) && vs.iter().any(|v| matches!(v, PV::I(_))) && (is_int(&s.min) || is_int(&s.max)))
    };
    match p {
        Pred::Eq(c, v) | Pred::Le(c, v) | Pred::Ge(c, v) => atom(*c, v),
        Pred::In(c, vs) => group(*c, vs),
        Pred::Bt(c, lo, hi) => group(*c, &[lo.clone(), hi.clone()]),
        Pred::And(a, b) | Pred::Or(a, b) => known_mixed(a, st, r) || known_mixed(b, st, r),
        _ => false,
    }
}
