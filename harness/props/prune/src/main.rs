//! csv-prune — correspondence + oracle for C12 (statistics-based chunk pruning
//! never excludes a matching chunk).
//!
//! Leg A  ColumnPredicate::evaluate_against_stats (public) vs the extracted
//!        Coq model on generated predicate trees x statistics; per case a
//!        generated row set whose true min / max produced the statistics; the
//!        oracle "pruned => no row within the statistics satisfies the
//!        predicate" uses this harness's own row evaluator (eval.rs), which is
//!        also compared with the model's `sat` / `in_stats` / `known_mixed`.
//! Leg B  ObjectStoreMetadataClient::get_chunks_with_predicates on a catalog
//!        seeded through save_chunk_metadata (statistics re-read after the JSON
//!        round trip) vs the model's gate, same oracle per dropped chunk.
//! Leg C  QueryEngine::extract_column_predicates on generated SQL vs the
//!        model's `convert` (sql.rs).
//! Leg D  the row semantics against DataFusion itself (df.rs).
mod df;
mod eval;
mod gen;
mod sql;
mod types;

use cardinalsin::ingester::ChunkMetadata;
use cardinalsin::metadata::{MetadataClient, ObjectStoreMetadataClient, ObjectStoreMetadataConfig, TimeRange};
use csv_common::{catch, Args, Model, Report, Rng};
use eval::Tv;
use gen::Case;
use object_store::memory::InMemory;
use serde_json::{json, Value};
use std::panic::AssertUnwindSafe;
use std::sync::Arc;
use types::*;

pub const KNOWN_CLASS: &str = "int-literal-exact-vs-engine-coercion";

fn impl_eval(c: &Case) -> String {
    let p = to_impl(&c.pred);
    let st = to_impl_stats(&c.stats);
    match catch(AssertUnwindSafe(|| p.evaluate_against_stats(&st))) {
        Ok(b) => format!("e={}", b as u8),
        Err(_) => "PANIC".into(),
    }
}

/// the harness's own view of the rows: sat / in_stats / known, same layout as the model's answer
fn rows_view(c: &Case) -> Vec<String> {
    c.rows
        .iter()
        .map(|r| {
            format!(
                "{}/{}/{}",
                eval::sat(&c.pred, r).ch(),
                eval::in_stats(r, &c.stats) as u8,
                eval::known_mixed(&c.pred, &c.stats, r) as u8
            )
        })
        .collect()
}

struct AOut {
    impl_out: String,
    model_out: String,
    verdict_differs: bool,
    rows_differ: bool,
    /// (row index, known class?) of rows that are within the statistics and satisfy the predicate of a pruned chunk
    bad_rows: Vec<(usize, bool)>,
}

fn check_a(c: &Case, model: &mut Model) -> AOut {
    let impl_out = impl_eval(c);
    let line = c.line();
    let model_out = model.ask(&line);
    let mut verdict_differs = false;
    let mut rows_differ = false;
    if !model.is_null() {
        let mut parts = model_out.split(' ');
        let me = parts.next().unwrap_or("");
        let _old = parts.next();
        let mrows: Vec<String> = parts.map(|s| s.to_string()).collect();
        verdict_differs = me != impl_out;
        rows_differ = mrows != rows_view(c);
    }
    let mut bad_rows = Vec::new();
    if impl_out == "e=0" {
        for (i, r) in c.rows.iter().enumerate() {
            if eval::in_stats(r, &c.stats) && eval::sat(&c.pred, r) == Tv::T {
                bad_rows.push((i, eval::known_mixed(&c.pred, &c.stats, r)));
            }
        }
    }
    AOut { impl_out, model_out, verdict_differs, rows_differ, bad_rows }
}

/// candidates one step smaller than the case
fn smaller(c: &Case) -> Vec<Case> {
    let mut out = Vec::new();
    fn subs(p: &Pred) -> Vec<Pred> {
        match p {
            Pred::And(a, b) | Pred::Or(a, b) => {
                let mut v = vec![(**a).clone(), (**b).clone()];
                for x in subs(a) {
                    v.push(match p {
                        Pred::And(_, _) => Pred::And(Box::new(x), b.clone()),
                        _ => Pred::Or(Box::new(x), b.clone()),
                    });
                }
                for x in subs(b) {
                    v.push(match p {
                        Pred::And(_, _) => Pred::And(a.clone(), Box::new(x)),
                        _ => Pred::Or(a.clone(), Box::new(x)),
                    });
                }
                v
            }
            Pred::Not(a) => {
                let mut v = vec![(**a).clone()];
                for x in subs(a) {
                    v.push(Pred::Not(Box::new(x)));
                }
                v
            }
            Pred::In(c, vs) if vs.len() > 1 => (0..vs.len())
                .map(|i| {
                    let mut w = vs.clone();
                    w.remove(i);
                    Pred::In(*c, w)
                })
                .collect(),
            _ => vec![],
        }
    }
    for p in subs(&c.pred) {
        out.push(Case { pred: p, ..c.clone() });
    }
    for i in 0..c.rows.len() {
        let mut rows = c.rows.clone();
        rows.remove(i);
        out.push(Case { rows, ..c.clone() });
    }
    for i in 0..c.stats.len() {
        let mut stats = c.stats.clone();
        stats.remove(i);
        out.push(Case { stats, ..c.clone() });
    }
    for (i, r) in c.rows.iter().enumerate() {
        for j in 0..r.len() {
            let mut rows = c.rows.clone();
            rows[i].remove(j);
            out.push(Case { rows, ..c.clone() });
        }
    }
    out
}

fn shrink(c: &Case, fails: &mut dyn FnMut(&Case) -> bool) -> Case {
    let mut cur = c.clone();
    let mut budget = 400;
    'outer: loop {
        for cand in smaller(&cur) {
            budget -= 1;
            if budget <= 0 {
                break 'outer;
            }
            if fails(&cand) {
                cur = cand;
                continue 'outer;
            }
        }
        break;
    }
    cur
}

fn describe(c: &Case) -> Value {
    json!({
        "leg": "A",
        "line": c.line(),
        "predicate": format!("{:?}", to_impl(&c.pred)),
        "stats": c.stats.iter().map(|s| json!({"column": cname(s.col), "min": s.min, "max": s.max})).collect::<Vec<_>>(),
        "rows": c.rows.iter().map(|r| r.iter().map(|(k, v)| format!("{}={}", cname(*k), show_v(v))).collect::<Vec<_>>()).collect::<Vec<_>>(),
    })
}

fn run_a(c: &Case, model: &mut Model, report: &mut Report, origin: &str) {
    let o = check_a(c, model);
    report.impl_runs += 1;
    report.bump(&format!("A.origin.{}", origin));
    report.bump(if o.impl_out == "e=0" { "A.verdict.prune" } else { "A.verdict.keep" });
    let within_rows = c.rows.iter().filter(|r| eval::in_stats(r, &c.stats)).count();
    if o.impl_out == "e=0" && within_rows > 0 {
        report.bump("A.pruned_with_rows_within_stats");
    }
    let nontrivial = !c.stats.is_empty() && within_rows > 0;
    let line = c.line();
    report.case(if nontrivial { Some(&line) } else { None });
    report.sample(json!({"leg": "A", "case": line, "impl": o.impl_out, "model": o.model_out}));
    if o.verdict_differs || o.rows_differ {
        let what = if o.verdict_differs {
            "ColumnPredicate::evaluate_against_stats vs Model/StatsPrune.v eval_stats"
        } else {
            "row semantics: harness row evaluator / within / classifier vs Model/StatsPrune.v sat / in_statsb / known_mixed"
        };
        let vd = o.verdict_differs;
        let s = shrink(c, &mut |k: &Case| {
            let r = check_a(k, model);
            if vd { r.verdict_differs } else { r.rows_differ }
        });
        let so = check_a(&s, model);
        report.disagreement(json!({
            "correspondence": what,
            "case": describe(c), "impl": o.impl_out, "model": o.model_out,
            "shrunk": describe(&s), "shrunk_impl": so.impl_out, "shrunk_model": so.model_out,
            "harness_rows": rows_view(&s),
            "oracle_failed": !o.bad_rows.is_empty(),
        }));
    }
    if !o.bad_rows.is_empty() {
        let all_known = o.bad_rows.iter().all(|(_, k)| *k);
        let want_known = all_known;
        let s = shrink(c, &mut |k: &Case| {
            let r = check_a(k, model);
            !r.bad_rows.is_empty() && r.bad_rows.iter().all(|(_, kn)| *kn) == want_known
        });
        let so = check_a(&s, model);
        let (i, _) = so.bad_rows[0];
        let class = if all_known { KNOWN_CLASS } else { "" };
        report.bump(if all_known { "A.oracle.known_class" } else { "A.oracle.violation" });
        report.oracle_violation(
            class,
            &format!(
                "evaluate_against_stats pruned the chunk for {:?} although row {:?}, which lies within the statistics, satisfies it",
                to_impl(&s.pred),
                s.rows[i].iter().map(|(k, v)| format!("{}={}", cname(*k), show_v(v))).collect::<Vec<_>>()
            ),
            describe(&s),
        );
    }
}

/// Proof-derived corner cases that always run first.
fn corpus() -> Vec<Case> {
    let lines = [
        // the repaired end points: stats [5,9], v <= 5, v >= 9, and their strict neighbours
        "E le 2 i:5 1 2 I:5 I:9 0 2 1 2 i:5 1 2 i:9",
        "E ge 2 i:9 1 2 I:5 I:9 0 2 1 2 i:5 1 2 i:9",
        "E lt 2 i:5 1 2 I:5 I:9 0 2 1 2 i:5 1 2 i:9",
        "E gt 2 i:9 1 2 I:5 I:9 0 2 1 2 i:5 1 2 i:9",
        "E le 2 i:4 1 2 I:5 I:9 0 1 1 2 i:5",
        "E ge 2 i:10 1 2 I:5 I:9 0 1 1 2 i:9",
        "E bt 2 i:9 i:20 1 2 I:5 I:9 0 1 1 2 i:9",
        "E bt 2 i:1 i:5 1 2 I:5 I:9 0 1 1 2 i:5",
        "E in 2 2 i:4 i:9 1 2 I:5 I:9 0 1 1 2 i:9",
        "E in 2 0 1 2 I:5 I:9 0 1 1 2 i:9",
        // strings: end points, prefix order, byte order of multi-byte characters
        "E le 5 s:61 1 5 S:61 S:63 0 1 1 5 s:61",
        "E ge 5 s:63 1 5 S:61 S:63 0 1 1 5 s:63",
        "E lt 5 s:6161 1 5 S:61 S:6162 0 2 1 5 s:61 1 5 s:6162",
        "E eq 5 s:c3a9 1 5 S:61 S:7a 0 1 1 5 s:7a",
        "E eq 5 s:3130 1 5 S:3130 S:39 0 2 1 5 s:3130 1 5 s:39",
        // floats: signed zeros, NaN literal, infinities, statistics that became null (NaN / inf)
        "E lt 3 f:0 1 3 F:9223372036854775808 F:4609434218613702656 0 1 1 3 f:9223372036854775808",
        "E le 3 f:9223372036854775808 1 3 F:0 F:4609434218613702656 0 1 1 3 f:0",
        "E eq 3 f:9221120237041090560 1 3 F:0 F:4609434218613702656 0 2 1 3 f:9221120237041090560 1 3 f:0",
        "E ne 3 f:9221120237041090560 1 3 F:0 F:4609434218613702656 0 1 1 3 f:9221120237041090560",
        "E gt 3 f:9218868437227405312 1 3 F:0 N 0 1 1 3 f:9218868437227405312",
        "E lt 3 f:18442240474082181120 1 3 N F:0 0 1 1 3 f:18442240474082181120",
        // Int x Float: float literal against integer statistics, integers above 2^53
        "E gt 2 f:4845873199050653696 1 2 I:9007199254740992 I:9007199254740993 0 1 1 2 i:9007199254740993",
        "E eq 2 f:4845873199050653696 1 2 I:9007199254740993 I:9007199254740993 0 1 1 2 i:9007199254740993",
        "E lt 2 f:4845873199050653698 1 2 I:9007199254740995 I:9007199254740995 0 1 1 2 i:9007199254740995",
        // u64 statistics above i64::MAX: integer literals cannot use them, float literals can
        "E lt 4 i:5 1 4 I:18446744073709551615 I:18446744073709551615 0 1 1 4 i:18446744073709551615",
        "E lt 4 f:4617315517961601024 1 4 I:18446744073709551615 I:18446744073709551615 0 1 1 4 i:18446744073709551615",
        "E eq 4 i:9223372036854775807 1 4 I:9223372036854775807 I:9223372036854775808 0 1 1 4 i:9223372036854775807",
        // the known class: integer statistics, integer literal, float row above 2^53
        "E le 3 i:9007199254740995 1 3 I:9007199254740996 I:9007199254740996 0 1 1 3 f:4845873199050653698",
        // same class through a float literal in the same BETWEEN / IN list (integer column)
        "E bt 2 f:4602678819172646912 i:9007199254740992 1 2 I:9007199254740993 I:9007199254740993 0 1 1 2 i:9007199254740993",
        "E in 2 2 f:4609434218613702656 i:9007199254740992 1 2 I:9007199254740993 I:9007199254740993 0 1 1 2 i:9007199254740993",
        // a BETWEEN mixing type classes (the engine casts the numbers to strings): outside the model
        "E bt 2 s:3130 i:9 1 2 I:10 I:10 0 1 1 2 i:10",
        // mixed BETWEEN / IN below 2^53 and with float statistics stay sound
        "E bt 2 f:4602678819172646912 i:4 1 2 I:5 I:9 0 1 1 2 i:5",
        "E bt 3 i:2 f:4613937818241073152 1 3 F:4616189618054758400 F:4617315517961601024 0 1 1 3 f:4616189618054758400",
        // missing / mistyped statistics, NULL rows, NOT over a pruning child, literals of another class
        "E lt 2 i:5 0 1 1 2 i:1",
        "E lt 2 i:5 1 2 N I:9 0 1 1 2 i:1",
        "E lt 2 i:5 1 2 S:61 S:62 0 1 1 2 i:1",
        "E lt 2 i:5 1 2 B1 O 0 1 1 2 i:1",
        "E not gt 2 i:9 1 2 I:5 I:9 0 1 1 2 i:5",
        "E and gt 2 i:9 ne 2 i:1 1 2 I:5 I:9 1 2 1 2 n 1 2 i:7",
        "E or gt 2 i:9 lt 2 i:5 1 2 I:5 I:9 0 1 1 2 i:7",
        "E eq 2 s:37 1 2 I:5 I:9 0 1 1 2 i:7",
        "E eq 2 b:1 1 2 I:5 I:9 0 1 1 2 i:7",
        "E lt 2 n 1 2 I:5 I:9 0 1 1 2 i:7",
        "E nin 2 1 i:7 1 2 I:7 I:7 0 1 1 2 i:7",
    ];
    lines.iter().map(|l| Case::parse(l)).collect()
}

// ------------------------------------------------------------- leg B ----
const H: i64 = 3_600_000_000_000;

struct CatCase {
    preds: Vec<Pred>,
    chunks: Vec<(Vec<Stat>, Vec<Row>)>,
}

impl CatCase {
    fn text(&self) -> String {
        let ps = self.preds.iter().map(show_pred).collect::<Vec<_>>().join(" ; ");
        let cs = self.chunks.iter().map(|(s, r)| format!("{} | {}", show_stats(s), show_rows(r))).collect::<Vec<_>>().join(" # ");
        format!("{} @ {}", ps, cs)
    }
    fn parse(t: &str) -> CatCase {
        let (ps, cs) = t.split_once(" @ ").unwrap_or((t, ""));
        let preds = ps.split(" ; ").filter(|s| !s.trim().is_empty()).map(|s| parse_pred(&mut Toks::new(s))).collect();
        let chunks = cs
            .split(" # ")
            .filter(|s| !s.trim().is_empty())
            .map(|c| {
                let (s, r) = c.split_once(" | ").unwrap();
                (parse_stats(&mut Toks::new(s)), parse_rows(&mut Toks::new(r)))
            })
            .collect();
        CatCase { preds, chunks }
    }
}

struct BOut {
    impl_out: String,
    model_out: String,
    reloaded: Vec<Vec<Stat>>,
    /// (chunk, row, known) for dropped chunks holding a row within the statistics that satisfies every predicate
    bad: Vec<(usize, usize, bool)>,
}

fn run_catalog(rt: &tokio::runtime::Runtime, cc: &CatCase, model: &mut Model, fresh_reader: bool) -> BOut {
    let store: Arc<dyn object_store::ObjectStore> = Arc::new(InMemory::new());
    let cfg = ObjectStoreMetadataConfig { bucket: "b".into(), metadata_prefix: "metadata/".into(), enable_cache: true, allow_unsafe_overwrite: false };
    let client = ObjectStoreMetadataClient::new(store.clone(), cfg.clone());
    let res = catch(AssertUnwindSafe(|| {
        rt.block_on(async {
            for (i, _) in cc.chunks.iter().enumerate() {
                let path = format!("chunk_{}.parquet", i);
                let m = ChunkMetadata { path: path.clone(), min_timestamp: 10 + i as i64, max_timestamp: H / 2 + i as i64, row_count: 1, size_bytes: 1 };
                client.register_chunk(&path, &m).await.map_err(|e| e.to_string())?;
            }
            let mut all = client.load_chunk_metadata().await.map_err(|e| e.to_string())?;
            for (i, (st, _)) in cc.chunks.iter().enumerate() {
                if let Some(ext) = all.get_mut(&format!("chunk_{}.parquet", i)) {
                    ext.column_stats = to_impl_stats(st);
                }
            }
            client.save_chunk_metadata(&all).await.map_err(|e| e.to_string())?;
            let reader = if fresh_reader { ObjectStoreMetadataClient::new(store.clone(), cfg.clone()) } else { client };
            let back = reader.load_chunk_metadata().await.map_err(|e| e.to_string())?;
            let preds: Vec<_> = cc.preds.iter().map(to_impl).collect();
            let got = reader.get_chunks_with_predicates(TimeRange::new(0, H), &preds).await.map_err(|e| e.to_string())?;
            let mut ids: Vec<usize> = got.iter().map(|e| e.chunk_path.trim_start_matches("chunk_").trim_end_matches(".parquet").parse().unwrap_or(999)).collect();
            ids.sort();
            let reloaded: Vec<Vec<Stat>> = (0..cc.chunks.len())
                .map(|i| back.get(&format!("chunk_{}.parquet", i)).map(|e| from_impl_stats(&e.column_stats)).unwrap_or_default())
                .collect();
            Ok::<_, String>((ids, reloaded))
        })
    }));
    let (impl_out, ids, reloaded) = match res {
        Ok(Ok((ids, reloaded))) => (ids.iter().map(|i| i.to_string()).collect::<Vec<_>>().join(","), ids, reloaded),
        Ok(Err(e)) => (format!("ERR {}", e), vec![], vec![]),
        Err(_) => ("PANIC".to_string(), vec![], vec![]),
    };
    let mut kept = Vec::new();
    if !reloaded.is_empty() {
        for (i, st) in reloaded.iter().enumerate() {
            let line = format!("G {} {} {}", cc.preds.len(), cc.preds.iter().map(show_pred).collect::<Vec<_>>().join(" "), show_stats(st));
            if model.ask(&line) == "1" {
                kept.push(i.to_string());
            }
        }
    }
    let model_out = kept.join(",");
    let mut bad = Vec::new();
    for (i, (_, rows)) in cc.chunks.iter().enumerate() {
        if reloaded.is_empty() || ids.contains(&i) {
            continue;
        }
        for (j, r) in rows.iter().enumerate() {
            if eval::in_stats(r, &reloaded[i]) && cc.preds.iter().all(|p| eval::sat(p, r) == Tv::T) {
                bad.push((i, j, cc.preds.iter().any(|p| eval::known_mixed(p, &reloaded[i], r))));
            }
        }
    }
    BOut { impl_out, model_out, reloaded, bad }
}

fn gen_catalog(rng: &mut Rng, report: &mut Report) -> CatCase {
    let doms = gen::gen_columns(rng, report);
    let n = rng.range_usize(1, 4);
    let chunks = (0..n)
        .map(|_| {
            let rows = gen::gen_rows(rng, &doms, report);
            let stats = gen::gen_stats(rng, &doms, &rows, report);
            (stats, rows)
        })
        .collect();
    let np = rng.range_usize(0, 3);
    let preds = (0..np)
        .map(|_| {
            let d = *rng.pick(&[0u32, 1, 1, 2]);
            gen::gen_pred(rng, &doms, d, report)
        })
        .collect();
    CatCase { preds, chunks }
}

fn run_b(rt: &tokio::runtime::Runtime, cc: &CatCase, model: &mut Model, report: &mut Report, fresh: bool) {
    let o = run_catalog(rt, cc, model, fresh);
    report.impl_runs += 1;
    let text = cc.text();
    report.bump("B.catalog_cases");
    report.bump_by("B.chunks", cc.chunks.len() as u64);
    let dropped = cc.chunks.len() - o.impl_out.split(',').filter(|s| !s.is_empty()).count().min(cc.chunks.len());
    report.bump_by("B.chunks_dropped", dropped as u64);
    for (i, (st, _)) in cc.chunks.iter().enumerate() {
        if let Some(r) = o.reloaded.get(i) {
            let before = show_stats(&from_impl_stats(&to_impl_stats(st)));
            if before != show_stats(r) {
                report.bump("B.stats_changed_by_json_round_trip");
            }
        }
    }
    report.case(if !cc.preds.is_empty() && cc.chunks.iter().any(|(s, _)| !s.is_empty()) { Some(&text) } else { None });
    report.sample(json!({"leg": "B", "case": text, "impl_kept": o.impl_out, "model_kept": o.model_out}));
    if !model.is_null() && o.impl_out != o.model_out {
        report.disagreement(json!({
            "correspondence": "ObjectStoreMetadataClient::get_chunks_with_predicates (catalog seeded through save_chunk_metadata) vs Model/StatsPrune.v gate",
            "case": {"leg": "B", "text": text}, "impl": o.impl_out, "model": o.model_out, "shrunk": text,
            "oracle_failed": !o.bad.is_empty(),
        }));
    }
    if !o.bad.is_empty() {
        let all_known = o.bad.iter().all(|(_, _, k)| *k);
        let (ci, ri, _) = o.bad[0];
        report.oracle_violation(
            if all_known { KNOWN_CLASS } else { "" },
            &format!(
                "get_chunks_with_predicates dropped chunk_{} for {:?} although its row {:?} lies within the statistics and satisfies every predicate",
                ci,
                cc.preds.iter().map(to_impl).collect::<Vec<_>>(),
                cc.chunks[ci].1[ri].iter().map(|(k, v)| format!("{}={}", cname(*k), show_v(v))).collect::<Vec<_>>()
            ),
            json!({"leg": "B", "text": text}),
        );
    }
}

fn corpus_b() -> Vec<CatCase> {
    [
        "le 2 i:5 @ 1 2 I:5 I:9 0 | 1 1 2 i:5 # 1 2 I:6 I:9 0 | 1 1 2 i:6 # 0 | 1 1 2 i:1",
        "ge 2 i:9 ; eq 5 s:637075 @ 2 2 I:5 I:9 0 5 S:637075 S:637075 0 | 1 2 2 i:9 5 s:637075 # 2 2 I:5 I:9 0 5 S:6d656d S:6d656d 0 | 1 2 2 i:9 5 s:6d656d",
        "gt 3 f:4609434218613702656 @ 1 3 F:0 F:4609434218613702656 0 | 1 1 3 f:4609434218613702656 # 1 3 F:0 F:4611686018427387904 0 | 1 1 3 f:4611686018427387904",
        "lt 4 f:4617315517961601024 @ 1 4 I:18446744073709551615 I:18446744073709551615 0 | 1 1 4 i:18446744073709551615",
        " @ 1 2 I:5 I:9 0 | 1 1 2 i:5",
        // a predicate on a column without statistics may match, whatever statistics a sibling
        // name (other case, longer name) carries
        "gt 2 i:100 @ 1 10 I:0 I:10 0 | 1 2 2 i:150 10 i:5",
        "eq 5 s:7a @ 2 13 S:61 S:62 0 15 S:61 S:61 0 | 1 3 5 s:7a 13 s:61 15 s:61",
        "lt 17 f:4607182418800017408 @ 1 18 F:4617315517961601024 F:4621819117588971520 0 | 1 2 17 f:4602678819172646912 18 f:4617315517961601024",
        "ge 12 i:50 ; le 10 i:3 @ 2 2 I:0 I:1 0 10 I:0 I:9 0 | 1 3 2 i:1 10 i:2 12 i:70",
    ]
    .iter()
    .map(|t| CatCase::parse(t))
    .collect()
}

fn main() {
    let args = Args::parse();
    if std::env::var("CSV_PRUNE_LOUD").is_err() {
        csv_common::quiet_panics();
    }
    let rt = tokio::runtime::Builder::new_current_thread().enable_all().build().unwrap();
    let mut model = Model::spawn(&args.model);
    let mut report = Report::new("C12");
    report.max_samples = 6;

    if let Some(path) = &args.replay {
        let txt = std::fs::read_to_string(path).expect("replay file");
        let v: Value = serde_json::from_str(&txt).expect("replay json");
        let v = if v.get("leg").is_some() { v } else { v.get("case").cloned().unwrap_or(v) };
        let leg = v["leg"].as_str().unwrap_or("A").to_string();
        let failed = match leg.as_str() {
            "A" => {
                let c = Case::parse(v["line"].as_str().expect("line"));
                let o = check_a(&c, &mut model);
                println!("case  : {}\nimpl  : {}\nmodel : {}\nharness rows: {:?}\nrows within the statistics that satisfy the predicate of a pruned chunk: {:?}", c.line(), o.impl_out, o.model_out, rows_view(&c), o.bad_rows);
                o.verdict_differs || o.rows_differ || !o.bad_rows.is_empty()
            }
            "B" => {
                let cc = CatCase::parse(v["text"].as_str().expect("text"));
                let o = run_catalog(&rt, &cc, &mut model, true);
                println!("case  : {}\nimpl kept : {}\nmodel kept: {}\nviolating (chunk,row,known): {:?}", cc.text(), o.impl_out, o.model_out, o.bad);
                (!model.is_null() && o.impl_out != o.model_out) || !o.bad.is_empty()
            }
            _ => {
                let c = sql::CCase::parse(&v);
                let eng = sql::Engine::new(&rt);
                let o = sql::check_c(&rt, &eng, &c, &mut model);
                println!(
                    "sql   : {}\nimpl  : {}\nmodel : {}\nchunk pruned: {}\nrows DataFusion returns from the pruned chunk (row, known): {:?}",
                    c.sql(), o.impl_out, o.model_out, o.pruned, o.bad_rows
                );
                o.differs || !o.bad_rows.is_empty()
            }
        };
        std::process::exit(if failed { 1 } else { 0 });
    }

    let thorough = args.thorough();
    let (n_a, n_b, n_c, n_d) = if thorough { (600_000usize, 30_000usize, 30_000usize, 8_000usize) } else { (60_000, 2_500, 6_000, 1_500) };
    let mut rng = Rng::new(args.seed);

    // leg A
    for c in corpus() {
        run_a(&c, &mut model, &mut report, "corpus");
    }
    let stride = (n_a / n_d).max(1);
    for i in 0..n_a {
        let mut r = rng.fork();
        let c = gen::gen_case(&mut r, &mut report);
        run_a(&c, &mut model, &mut report, "random");
        if i % stride == 0 {
            df::check_d(&rt, &c, &mut report);
        }
    }
    df::engine_float_notes(&rt, &mut report);
    // leg B
    for (i, cc) in corpus_b().iter().enumerate() {
        run_b(&rt, cc, &mut model, &mut report, i % 2 == 0);
    }
    for i in 0..n_b {
        let mut r = rng.fork();
        let cc = gen_catalog(&mut r, &mut report);
        run_b(&rt, &cc, &mut model, &mut report, i % 2 == 0);
    }
    // leg C
    sql::run_c(&rt, &mut rng, n_c, &mut model, &mut report);

    report.notes.push(format!("model calls: {}", model.calls));
    report.write(&args.out);
}
