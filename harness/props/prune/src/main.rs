use cardinalsin::metadata::{ColumnPredicate, ColumnStats, PredicateValue};
use cardinalsin::query::{CacheConfig, QueryEngine, TieredCache};
use cardinalsin::StorageConfig;
use object_store::memory::InMemory;
use serde_json::json;
use std::collections::HashMap;
use std::sync::Arc;

fn stats1(min: serde_json::Value, max: serde_json::Value) -> HashMap<String, ColumnStats> {
    let mut m = HashMap::new();
    m.insert("v".to_string(), ColumnStats { min, max, has_nulls: false });
    m
}

fn main() {
    let rt = tokio::runtime::Builder::new_current_thread().enable_all().build().unwrap();
    let s = stats1(json!(5), json!(9));
    for (name, p) in [
        ("v <= 5", ColumnPredicate::LtEq("v".into(), PredicateValue::Int64(5))),
        ("v >= 9", ColumnPredicate::GtEq("v".into(), PredicateValue::Int64(9))),
        ("v < 5", ColumnPredicate::Lt("v".into(), PredicateValue::Int64(5))),
        ("v > 9", ColumnPredicate::Gt("v".into(), PredicateValue::Int64(9))),
        ("v <= 4", ColumnPredicate::LtEq("v".into(), PredicateValue::Int64(4))),
    ] {
        println!("stats [5,9] {} -> {}", name, p.evaluate_against_stats(&s));
    }
    // int stats above 2^53, int literal, float row
    let s = stats1(json!(9007199254740996i64), json!(9007199254740996i64));
    let p = ColumnPredicate::LtEq("v".into(), PredicateValue::Int64(9007199254740995));
    println!("stats [2^53+4,2^53+4] v <= 2^53+3 -> {}", p.evaluate_against_stats(&s));
    println!("json!(2.0) = {:?} is_f64 {} ; json!(NaN) = {:?}; json!(-0.0) = {}", json!(2.0f64), json!(2.0f64).is_f64(), json!(f64::NAN), json!(-0.0f64));
    println!("u64 big as_i64 {:?} as_f64 {:?}", json!(u64::MAX).as_i64(), json!(u64::MAX).as_f64());

    rt.block_on(async {
        let dir = tempfile::tempdir().unwrap();
        let cache = Arc::new(TieredCache::new(CacheConfig { l1_size: 1 << 20, l2_size: 1 << 20, l2_dir: Some(dir.path().to_str().unwrap().to_string()) }).await.unwrap());
        let engine = QueryEngine::new(Arc::new(InMemory::new()), cache, &StorageConfig::default()).await.unwrap();
        for sql in [
            "SELECT * FROM metrics WHERE value_i64 NOT BETWEEN 10 AND 20",
            "SELECT * FROM metrics WHERE value_i64 BETWEEN 10 AND 20",
            "SELECT * FROM metrics WHERE NOT (value_i64 > 5)",
            "SELECT * FROM metrics WHERE value_i64 NOT IN (1, 2)",
            "SELECT * FROM metrics WHERE value_i64 <= -5 AND (host = 'a' OR value_f64 > 1.5)",
            "SELECT * FROM metrics WHERE value_f64 <= 9007199254740995",
            "SELECT * FROM metrics WHERE value_i64 = 18446744073709551615",
            "SELECT * FROM metrics WHERE value_i64 = NULL OR host = true",
            "SELECT * FROM metrics WHERE host NOT LIKE 'a%' AND value_i64 > 1",
            "SELECT * FROM (SELECT -value_i64 AS value_i64 FROM metrics) WHERE value_i64 > 5",
            "SELECT host, count(*) AS value_i64 FROM metrics GROUP BY host HAVING count(*) > 5",
        ] {
            println!("{} => {:?}", sql, engine.extract_column_predicates(sql).await);
        }
        let ctx = datafusion::prelude::SessionContext::new();
        for sql in [
            "SELECT CAST(9007199254740996 AS DOUBLE) <= 9007199254740995",
            "SELECT CAST(9007199254740993 AS BIGINT) = CAST(9007199254740992 AS DOUBLE)",
            "SELECT CAST('NaN' AS DOUBLE) > 5.0, CAST('NaN' AS DOUBLE) = CAST('NaN' AS DOUBLE), CAST(-0.0 AS DOUBLE) = CAST(0.0 AS DOUBLE)",
            "SELECT 10 < '9', 'abc' = 5",
        ] {
            match ctx.sql(sql).await {
                Ok(df) => println!("{} => {:?}", sql, df.collect().await.map(|b| datafusion::arrow::util::pretty::pretty_format_batches(&b).unwrap().to_string())),
                Err(e) => println!("{} => plan error {}", sql, e),
            }
        }
    });
}
