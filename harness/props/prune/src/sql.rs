//! Leg C: QueryEngine::extract_column_predicates (SQL text -> logical plan ->
//! convert_expr_to_predicate) vs the model's `convert` on the same expression
//! tree.  The harness prints a generated expression tree as fully
//! parenthesised SQL over the columns of the default `metrics` table.
use crate::eval;
use crate::types::*;
use cardinalsin::query::{CacheConfig, QueryEngine, TieredCache};
use cardinalsin::StorageConfig;
use csv_common::{Model, Report, Rng};
use object_store::memory::InMemory;
use serde_json::{json, Value};
use std::sync::Arc;

#[derive(Clone, Debug)]
pub enum Sc {
    Utf8(String),
    I64(i64),
    F64(u64),
    Bool(bool),
    Null,
    /// a literal the conversion does not accept (UInt64)
    Other(String),
}

#[derive(Clone, Copy, Debug, PartialEq)]
pub enum Bop {
    Eq,
    Ne,
    Lt,
    Le,
    Gt,
    Ge,
    And,
    Or,
    Other,
}

#[derive(Clone, Debug)]
pub enum E {
    Col(usize),
    Lit(Sc),
    Bin(Box<E>, Bop, Box<E>),
    Btw(Box<E>, bool, Box<E>, Box<E>),
    InL(Box<E>, bool, Vec<E>),
    Not(Box<E>),
    /// anything else (function call, cast, IS NULL, LIKE ...), as SQL text
    Other(String),
}

fn op_sql(o: Bop) -> &'static str {
    match o {
        Bop::Eq => "=",
        Bop::Ne => "<>",
        Bop::Lt => "<",
        Bop::Le => "<=",
        Bop::Gt => ">",
        Bop::Ge => ">=",
        Bop::And => "AND",
        Bop::Or => "OR",
        Bop::Other => "+",
    }
}
fn op_tok(o: Bop) -> &'static str {
    match o {
        Bop::Eq => "eq",
        Bop::Ne => "ne",
        Bop::Lt => "lt",
        Bop::Le => "le",
        Bop::Gt => "gt",
        Bop::Ge => "ge",
        Bop::And => "and",
        Bop::Or => "or",
        Bop::Other => "other",
    }
}

pub fn to_sql(e: &E) -> String {
    match e {
        E::Col(c) => cname(*c),
        E::Lit(Sc::Utf8(s)) => format!("'{}'", s.replace('\'', "''")),
        E::Lit(Sc::I64(i)) => format!("{}", i),
        E::Lit(Sc::F64(b)) => format!("{:?}", f64::from_bits(*b)),
        E::Lit(Sc::Bool(b)) => format!("{}", b),
        E::Lit(Sc::Null) => "NULL".into(),
        E::Lit(Sc::Other(t)) => t.clone(),
        E::Bin(l, o, r) => format!("({} {} {})", to_sql(l), op_sql(*o), to_sql(r)),
        E::Btw(x, neg, lo, hi) => format!("({} {}BETWEEN {} AND {})", to_sql(x), if *neg { "NOT " } else { "" }, to_sql(lo), to_sql(hi)),
        E::InL(x, neg, l) => format!("({} {}IN ({}))", to_sql(x), if *neg { "NOT " } else { "" }, l.iter().map(to_sql).collect::<Vec<_>>().join(", ")),
        E::Not(x) => format!("(NOT {})", to_sql(x)),
        E::Other(t) => t.clone(),
    }
}

pub fn show_expr(e: &E) -> String {
    match e {
        E::Col(c) => format!("col {}", c),
        E::Lit(Sc::Utf8(s)) => format!("lit u:{}", hex(s.as_bytes())),
        E::Lit(Sc::I64(i)) => format!("lit i64:{}", i),
        E::Lit(Sc::F64(b)) => format!("lit f64:{}", b),
        E::Lit(Sc::Bool(b)) => format!("lit b:{}", *b as u8),
        E::Lit(Sc::Null) => "lit null".into(),
        E::Lit(Sc::Other(t)) => format!("lit other:{}", hex(t.as_bytes())),
        E::Bin(l, o, r) => format!("bin {} {} {}", op_tok(*o), show_expr(l), show_expr(r)),
        E::Btw(x, neg, lo, hi) => format!("btw {} {} {} {}", *neg as u8, show_expr(x), show_expr(lo), show_expr(hi)),
        E::InL(x, neg, l) => format!("inl {} {} {}{}", *neg as u8, show_expr(x), l.len(), l.iter().map(|i| format!(" {}", show_expr(i))).collect::<String>()),
        E::Not(x) => format!("not {}", show_expr(x)),
        E::Other(t) => format!("oth:{}", hex(t.as_bytes())),
    }
}

/// the model's syntax has no payload on `other` / `oth`
fn model_line(e: &E) -> String {
    let s = show_expr(e);
    let toks: Vec<String> = s
        .split(' ')
        .map(|t| {
            if t.starts_with("other:") {
                "other".to_string()
            } else if t.starts_with("oth:") {
                "oth".to_string()
            } else {
                t.to_string()
            }
        })
        .collect();
    format!("C {}", toks.join(" "))
}

pub fn parse_expr(t: &mut Toks) -> E {
    let k = t.next();
    if let Some(h) = k.strip_prefix("oth:") {
        return E::Other(String::from_utf8(unhex(h)).unwrap());
    }
    match k {
        "col" => E::Col(t.num()),
        "lit" => {
            let s = t.next();
            E::Lit(if let Some(h) = s.strip_prefix("u:") {
                Sc::Utf8(String::from_utf8(unhex(h)).unwrap())
            } else if let Some(i) = s.strip_prefix("i64:") {
                Sc::I64(i.parse().unwrap())
            } else if let Some(f) = s.strip_prefix("f64:") {
                Sc::F64(f.parse().unwrap())
            } else if let Some(h) = s.strip_prefix("other:") {
                Sc::Other(String::from_utf8(unhex(h)).unwrap())
            } else if s == "null" {
                Sc::Null
            } else {
                Sc::Bool(s == "b:1")
            })
        }
        "bin" => {
            let o = match t.next() {
                "eq" => Bop::Eq,
                "ne" => Bop::Ne,
                "lt" => Bop::Lt,
                "le" => Bop::Le,
                "gt" => Bop::Gt,
                "ge" => Bop::Ge,
                "and" => Bop::And,
                "or" => Bop::Or,
                _ => Bop::Other,
            };
            let l = parse_expr(t);
            let r = parse_expr(t);
            E::Bin(Box::new(l), o, Box::new(r))
        }
        "btw" => {
            let neg = t.next() == "1";
            let x = parse_expr(t);
            let lo = parse_expr(t);
            let hi = parse_expr(t);
            E::Btw(Box::new(x), neg, Box::new(lo), Box::new(hi))
        }
        "inl" => {
            let neg = t.next() == "1";
            let x = parse_expr(t);
            let n = t.num();
            let l = (0..n).map(|_| parse_expr(t)).collect();
            E::InL(Box::new(x), neg, l)
        }
        "not" => E::Not(Box::new(parse_expr(t))),
        other => panic!("bad expression token {}", other),
    }
}

pub struct Engine {
    pub engine: QueryEngine,
    _dir: tempfile::TempDir,
}

impl Engine {
    pub fn new(rt: &tokio::runtime::Runtime) -> Engine {
        let dir = tempfile::tempdir().unwrap();
        let engine = rt.block_on(async {
            let cache = Arc::new(
                TieredCache::new(CacheConfig { l1_size: 1 << 20, l2_size: 1 << 20, l2_dir: Some(dir.path().to_str().unwrap().to_string()) })
                    .await
                    .unwrap(),
            );
            QueryEngine::new(Arc::new(InMemory::new()), cache, &StorageConfig::default()).await.unwrap()
        });
        Engine { engine, _dir: dir }
    }
}

pub struct COut {
    pub impl_out: String,
    pub model_out: String,
    pub differs: bool,
    pub plan_error: bool,
    /// the extracted predicates prune the generated chunk
    pub pruned: bool,
    /// rows of a pruned chunk (within its statistics) that DataFusion returns for the WHERE clause; known class?
    pub bad_rows: Vec<(usize, bool)>,
    pub engine_error: bool,
}

/// statement shapes of leg C.  `parts` are the filter expressions used.
///   0  SELECT * FROM metrics WHERE p0                                  (expected: convert p0)
///   1  UNION ALL of one filtered select per part                         (expected: nothing extracted)
///   2  (select WHERE p0) l LEFT JOIN (select WHERE p1) r                 (expected: nothing)
///   3  SELECT * FROM (select WHERE p0) d [WHERE p1]                      (expected: convert p1 / nothing)
///   4  SELECT DISTINCT ... WHERE p0                                      (expected: nothing - the Distinct node stops the traversal)
///   5  SELECT ... WHERE p0 ORDER BY host LIMIT 5                         (expected: convert p0)
///   6  SELECT * FROM (SELECT -value_i64 AS value_i64, ... ) WHERE p0     (NOT judged: the unchanged code
///      pushes the outer filter to the raw column; recorded only)
pub const SEL: &str = "host, service, metric_name, value_i64, value_f64, value_u64";

/// one leg-C case: the statement and a chunk (rows + statistics)
#[derive(Clone)]
pub struct CCase {
    pub shape: u8,
    pub parts: Vec<E>,
    pub rows: Vec<Row>,
    pub stats: Vec<Stat>,
}

impl CCase {
    pub fn sql(&self) -> String {
        let p = |i: usize| to_sql(&self.parts[i]);
        match self.shape {
            0 => format!("SELECT * FROM metrics WHERE {}", p(0)),
            1 => (0..self.parts.len()).map(|i| format!("SELECT {} FROM metrics WHERE {}", SEL, p(i))).collect::<Vec<_>>().join(" UNION ALL "),
            2 => format!(
                "SELECT l.host, l.value_i64, r.value_f64 FROM (SELECT host, value_i64 FROM metrics WHERE {}) l LEFT JOIN (SELECT host AS h2, value_f64 FROM metrics WHERE {}) r ON l.host = r.h2",
                p(0), p(1)
            ),
            3 => {
                if self.parts.len() > 1 {
                    format!("SELECT * FROM (SELECT {} FROM metrics WHERE {}) d WHERE {}", SEL, p(0), p(1))
                } else {
                    format!("SELECT * FROM (SELECT {} FROM metrics WHERE {}) d", SEL, p(0))
                }
            }
            4 => format!("SELECT DISTINCT {} FROM metrics WHERE {}", SEL, p(0)),
            5 => format!("SELECT {} FROM metrics WHERE {} ORDER BY host LIMIT 5", SEL, p(0)),
            _ => format!("SELECT * FROM (SELECT -value_i64 AS value_i64, -value_f64 AS value_f64, host FROM metrics) WHERE {}", p(0)),
        }
    }
    /// the filter whose conversion the unchanged plan traversal returns (None = nothing)
    pub fn expected_part(&self) -> Option<&E> {
        match self.shape {
            0 | 5 | 6 => Some(&self.parts[0]),
            3 => self.parts.get(1),
            _ => None,
        }
    }
    pub fn json(&self) -> Value {
        json!({"leg": "C", "shape": self.shape, "parts": self.parts.iter().map(show_expr).collect::<Vec<_>>(), "sql": self.sql(),
               "rows": show_rows(&self.rows), "stats": show_stats(&self.stats)})
    }
    pub fn parse(v: &Value) -> CCase {
        let parts: Vec<E> = match v.get("parts").and_then(|p| p.as_array()) {
            Some(a) => a.iter().map(|t| parse_expr(&mut Toks::new(t.as_str().unwrap()))).collect(),
            None => vec![parse_expr(&mut Toks::new(v["expr"].as_str().expect("expr")))],
        };
        CCase {
            shape: v.get("shape").and_then(|s| s.as_u64()).unwrap_or(0) as u8,
            parts,
            rows: v["rows"].as_str().map(|t| parse_rows(&mut Toks::new(t))).unwrap_or_default(),
            stats: v["stats"].as_str().map(|t| parse_stats(&mut Toks::new(t))).unwrap_or_default(),
        }
    }
}

pub fn check_c(rt: &tokio::runtime::Runtime, eng: &Engine, c: &CCase, model: &mut Model) -> COut {
    let sql = c.sql();
    let r = rt.block_on(eng.engine.extract_column_predicates(&sql));
    let mut pruned = false;
    let mut preds: Vec<Pred> = Vec::new();
    let (impl_out, plan_error) = match r {
        Ok(ps) if ps.is_empty() => ("NONE".to_string(), false),
        Ok(ps) => {
            // the gate of get_chunks_with_predicates on the generated chunk's statistics
            let st = to_impl_stats(&c.stats);
            pruned = !ps.iter().all(|p| p.evaluate_against_stats(&st));
            preds = ps.iter().map(from_impl).collect();
            (preds.iter().map(show_pred).collect::<Vec<_>>().join(" && "), false)
        }
        Err(err) => (format!("ERR {}", err).chars().take(200).collect(), true),
    };
    let model_out = match c.expected_part() {
        Some(e) => model.ask(&model_line(e)).split(" ; ").next().unwrap_or("").to_string(),
        None => {
            if model.is_null() { "NO-MODEL".to_string() } else { "NONE".to_string() }
        }
    };
    let differs = !model.is_null() && !plan_error && impl_out != model_out;
    // oracle: a pruned chunk contributes no row to DataFusion's answer to the statement
    let mut bad_rows = Vec::new();
    let mut engine_error = false;
    if pruned && !c.rows.is_empty() && c.rows.iter().all(|r| eval::in_stats(r, &c.stats)) {
        if c.shape == 0 {
            match crate::df::eval_where(rt, &to_sql(&c.parts[0]), &c.rows) {
                Ok(ids) => {
                    for i in ids {
                        if i < c.rows.len() {
                            let known = preds.iter().any(|p| eval::known_mixed(p, &c.stats, &c.rows[i]));
                            bad_rows.push((i, known));
                        }
                    }
                }
                Err(_) => engine_error = true,
            }
        } else {
            match crate::df::eval_stmt(rt, &sql, &c.rows) {
                Ok(n) if n > 0 => {
                    let known = preds.iter().any(|p| c.rows.iter().any(|r| eval::known_mixed(p, &c.stats, r)));
                    bad_rows.push((0, known));
                }
                Ok(_) => {}
                Err(_) => engine_error = true,
            }
        }
    }
    COut { impl_out, model_out, differs, plan_error, pruned, bad_rows, engine_error }
}

const STR_LITS: [&str; 7] = ["a", "cpu", "", "é", "it's", "10", "z"];
const BOOL_OTHERS: [&str; 3] = ["host IS NULL", "host LIKE 'a%'", "value_i64 IS NOT NULL"];
/// boolean operands that have no pushdown form: arithmetic, function calls,
/// column = column, comparisons of the time column
const NONCONV: [&str; 9] = [
    "value_f64 * 2 > 1",
    "abs(value_f64) > 0.5",
    "host = service",
    "value_i64 + 1 > 3",
    "timestamp >= to_timestamp_nanos(5)",
    "timestamp < to_timestamp_nanos(7)",
    "value_u64 > value_i64",
    "host LIKE 'a%'",
    "value_i64 IS NOT NULL",
];
const ROW_I64: [i64; 7] = [0, 5, -5, 10, 20, 9007199254740993, 3];
const ROW_F64: [f64; 7] = [1.5, 2.0, -2.5, 0.5, 100.0, 9007199254740992.0, 1e300];
const ROW_U64: [u64; 8] = [0, 5, 10, u64::MAX, 7, 1 << 63, (1 << 63) - 1, 10_000_000_000_000_000_000];
/// integer literals around and above i64::MAX (the SQL planner makes the latter UInt64 literals)
const BIG_INTS: [&str; 6] = [
    "9223372036854775806", "9223372036854775807", "9223372036854775808", "10000000000000000000", "18446744073709551614", "18446744073709551615",
];
fn big_int_lit(rng: &mut Rng) -> Sc {
    let t = *rng.pick(&BIG_INTS);
    match t.parse::<i64>() {
        Ok(i) => Sc::I64(i),
        Err(_) => Sc::Other(t.to_string()),
    }
}
const ROW_TS: [i64; 4] = [0, 5, 10, 1_000_000_000];

/// a convertible comparison whose literal comes from the pools the rows use
fn gen_conv_atom(rng: &mut Rng) -> E {
    let o = *rng.pick(&[Bop::Eq, Bop::Lt, Bop::Le, Bop::Gt, Bop::Ge, Bop::Eq]);
    let (c, l) = match rng.below(6) {
        4 => (*rng.pick(&[4usize, 4, 2]), big_int_lit(rng)),
        5 => (4usize, Sc::I64(*rng.pick(&[0i64, 5, 7, 10, 11]))),
        0 => (2usize, Sc::I64(*rng.pick(&ROW_I64) + rng.range_i64(-1, 1))),
        1 => (3, Sc::F64((*rng.pick(&ROW_F64) + rng.range_i64(-1, 1) as f64).to_bits())),
        2 => (*rng.pick(&[5usize, 6, 7]), Sc::Utf8(rng.pick(&STR_LITS).to_string())),
        _ => (7, Sc::Utf8("zzz".into())),
    };
    E::Bin(Box::new(E::Col(c)), o, Box::new(E::Lit(l)))
}

/// AND / OR with exactly one operand that has no pushdown form
fn gen_one_sided(rng: &mut Rng, report: &mut Report) -> E {
    let conv = if rng.chance(1, 4) {
        E::Bin(Box::new(gen_conv_atom(rng)), *rng.pick(&[Bop::And, Bop::Or]), Box::new(gen_conv_atom(rng)))
    } else {
        gen_conv_atom(rng)
    };
    let non = if rng.chance(1, 6) {
        E::Bin(Box::new(E::Col(0)), *rng.pick(&[Bop::Ge, Bop::Lt]), Box::new(E::Other("to_timestamp_nanos(5)".into())))
    } else {
        E::Other(rng.pick(&NONCONV).to_string())
    };
    let op = if rng.chance(3, 5) { Bop::Or } else { Bop::And };
    report.bump(if op == Bop::Or { "C.or_with_one_unconvertible_operand" } else { "C.and_with_one_unconvertible_operand" });
    if rng.chance(1, 2) {
        E::Bin(Box::new(conv), op, Box::new(non))
    } else {
        E::Bin(Box::new(non), op, Box::new(conv))
    }
}

pub fn gen_chunk(rng: &mut Rng) -> (Vec<Row>, Vec<Stat>) {
    let n = rng.range_usize(1, 4);
    let mut rows: Vec<Row> = Vec::new();
    for _ in 0..n {
        let mut r: Row = vec![(0, V::Int(*rng.pick(&ROW_TS) as i128))];
        let null = |rng: &mut Rng| rng.chance(1, 12);
        r.push((2, if null(rng) { V::Null } else { V::Int(*rng.pick(&ROW_I64) as i128) }));
        r.push((3, if null(rng) { V::Null } else { V::Float(rng.pick(&ROW_F64).to_bits()) }));
        r.push((4, if null(rng) { V::Null } else { V::Int(*rng.pick(&ROW_U64) as i128) }));
        r.push((5, if null(rng) { V::Null } else { V::Str(rng.pick(&STR_LITS).to_string()) }));
        r.push((6, if null(rng) { V::Null } else { V::Str(rng.pick(&STR_LITS).to_string()) }));
        r.push((7, V::Str(rng.pick(&["cpu", "memory", "a"]).to_string())));
        rows.push(r);
    }
    // statistics = true min / max per column (some columns without statistics)
    let mut stats = Vec::new();
    for c in [2usize, 3, 4, 5, 6, 7] {
        if rng.chance(1, 5) {
            continue;
        }
        let vals: Vec<V> = rows.iter().map(|r| eval::rget(c, r)).filter(|v| *v != V::Null).collect();
        if vals.is_empty() {
            continue;
        }
        let mut lo = vals[0].clone();
        let mut hi = vals[0].clone();
        for v in &vals {
            if matches!(eval::compare(v, &lo), eval::Cmp::Ord(std::cmp::Ordering::Less)) {
                lo = v.clone();
            }
            if matches!(eval::compare(v, &hi), eval::Cmp::Ord(std::cmp::Ordering::Greater)) {
                hi = v.clone();
            }
        }
        let j = |v: &V| match v {
            V::Int(i) if *i < 0 => Value::from(*i as i64),
            V::Int(i) => Value::from(*i as u64),
            V::Float(b) => float_json(f64::from_bits(*b)),
            V::Str(s) => Value::String(s.clone()),
            _ => Value::Null,
        };
        stats.push(Stat { col: c, min: j(&lo), max: j(&hi), has_nulls: vals.len() < rows.len() });
    }
    (rows, stats)
}

const VAL_OTHERS: [&str; 3] = ["abs(value_i64)", "(value_i64 + 1)", "CAST(value_f64 AS BIGINT)"];
const SQL_COLS: [usize; 8] = [2, 3, 4, 5, 6, 7, 2, 3];

fn gen_lit(rng: &mut Rng, report: &mut Report) -> E {
    match rng.below(100) {
        0..=34 => E::Lit(Sc::I64(*rng.pick(&[0i64, 5, -5, 10, 20, i64::MAX, i64::MIN + 1, 9007199254740993]))),
        35..=54 => E::Lit(Sc::F64(rng.pick(&[1.5f64, -0.0, 0.0, 2.0, -2.5, 1e300, 5e-324, 9007199254740992.0]).to_bits())),
        55..=79 => E::Lit(Sc::Utf8(rng.pick(&STR_LITS).to_string())),
        80..=85 => E::Lit(Sc::Bool(rng.chance(1, 2))),
        86..=90 => E::Lit(Sc::Null),
        91..=94 => {
            report.bump("C.literal.uint64");
            E::Lit(Sc::Other("18446744073709551615".into()))
        }
        _ => {
            report.bump("C.literal.non_literal_operand");
            if rng.chance(1, 2) { E::Other(rng.pick(&VAL_OTHERS).to_string()) } else { E::Col(*rng.pick(&SQL_COLS)) }
        }
    }
}

fn gen_operand(rng: &mut Rng, report: &mut Report) -> E {
    match rng.below(100) {
        0..=79 => E::Col(*rng.pick(&SQL_COLS)),
        80..=86 => {
            report.bump("C.time_column");
            E::Col(0)
        }
        87..=93 => {
            report.bump("C.operand.expression");
            E::Other(rng.pick(&VAL_OTHERS).to_string())
        }
        _ => {
            report.bump("C.operand.literal_on_the_left");
            gen_lit(rng, report)
        }
    }
}

pub fn gen_expr(rng: &mut Rng, depth: u32, report: &mut Report) -> E {
    if depth > 0 && rng.chance(1, 3) {
        let x = gen_one_sided(rng, report);
        return if depth > 1 && rng.chance(1, 3) {
            E::Bin(Box::new(x), *rng.pick(&[Bop::And, Bop::Or]), Box::new(gen_expr(rng, depth - 1, report)))
        } else {
            x
        };
    }
    let r = rng.below(100);
    if depth > 0 && r < 50 {
        let a = gen_expr(rng, depth - 1, report);
        return if r < 20 {
            E::Bin(Box::new(a), Bop::And, Box::new(gen_expr(rng, depth - 1, report)))
        } else if r < 40 {
            E::Bin(Box::new(a), Bop::Or, Box::new(gen_expr(rng, depth - 1, report)))
        } else {
            E::Not(Box::new(a))
        };
    }
    match rng.below(100) {
        0..=54 => {
            let o = *rng.pick(&[Bop::Eq, Bop::Ne, Bop::Lt, Bop::Le, Bop::Gt, Bop::Ge]);
            E::Bin(Box::new(gen_operand(rng, report)), o, Box::new(gen_lit(rng, report)))
        }
        55..=72 => {
            let neg = rng.chance(2, 5);
            if neg {
                report.bump("C.not_between");
            }
            E::Btw(Box::new(gen_operand(rng, report)), neg, Box::new(gen_lit(rng, report)), Box::new(gen_lit(rng, report)))
        }
        73..=90 => {
            let neg = rng.chance(2, 5);
            let n = rng.range_usize(1, 3);
            let l = (0..n).map(|_| gen_lit(rng, report)).collect();
            E::InL(Box::new(gen_operand(rng, report)), neg, l)
        }
        91..=95 => E::Other(rng.pick(&BOOL_OTHERS).to_string()),
        _ => {
            // a boolean column-less operand of AND / OR, or arithmetic
            E::Bin(Box::new(gen_operand(rng, report)), Bop::Other, Box::new(gen_lit(rng, report)))
        }
    }
}

fn corpus() -> Vec<E> {
    [
        "btw 1 col 2 lit i64:10 lit i64:20",
        "btw 0 col 2 lit i64:10 lit i64:20",
        "not btw 0 col 2 lit i64:10 lit i64:20",
        "bin and bin eq col 5 lit u:61 btw 1 col 2 lit i64:10 lit i64:20",
        "inl 1 col 2 2 lit i64:1 lit i64:2",
        "inl 0 col 5 2 lit u:61 lit u:62",
        "bin le col 2 lit i64:-5",
        "bin ge col 3 lit f64:4609434218613702656",
        "bin le col 3 lit i64:9007199254740995",
        "bin eq col 2 lit other:3138343436373434303733373039353531363135",
        "bin or bin eq col 2 lit null bin eq col 5 lit b:1",
        "bin and bin gt col 0 lit i64:5 bin eq col 5 lit u:61",
        "bin eq lit i64:5 col 2",
        "bin and col 5 lit b:1",
        "not bin gt col 2 lit i64:5",
        "bin and bin gt col 2 lit i64:1 oth:686f7374204c494b452027612527",
        // OR with one operand that has no pushdown form must not be converted at all
        "bin or bin eq col 7 lit u:7a7a7a oth:76616c75655f663634202a2032203e2031",
        "bin or oth:616273282076616c75655f66363429203e20302e35 bin eq col 7 lit u:7a7a7a",
        "bin or bin eq col 7 lit u:7a7a7a oth:686f7374203d2073657276696365",
        "bin or bin eq col 7 lit u:7a7a7a bin ge col 0 oth:746f5f74696d657374616d705f6e616e6f73283529",
        "bin and bin eq col 7 lit u:7a7a7a oth:76616c75655f663634202a2032203e2031",
    ]
    .iter()
    .map(|t| parse_expr(&mut Toks::new(t)))
    .collect()
}

pub fn gen_stmt(rng: &mut Rng, report: &mut Report) -> (u8, Vec<E>) {
    let atom = |rng: &mut Rng, report: &mut Report| -> E {
        if rng.chance(1, 4) { gen_expr(rng, 1, report) } else { gen_conv_atom(rng) }
    };
    let shape = *rng.pick(&[1u8, 1, 1, 2, 2, 3, 3, 4, 5, 6]);
    let n = match shape {
        1 => rng.range_usize(2, 3),
        2 => 2,
        3 => rng.range_usize(1, 2),
        _ => 1,
    };
    let parts = (0..n).map(|_| atom(rng, report)).collect();
    report.bump(&format!("C.shape.{}", shape));
    (shape, parts)
}

pub fn run_c(rt: &tokio::runtime::Runtime, rng: &mut Rng, n: usize, model: &mut Model, report: &mut Report) {
    let eng = Engine::new(rt);
    let mut cases: Vec<CCase> = Vec::new();
    let fixed_rows = |i: usize| -> Vec<Row> {
        vec![vec![
            (0, V::Int(10)),
            (2, V::Int(5 + i as i128 % 2)),
            (3, V::Float(2.0f64.to_bits())),
            (4, V::Int(7)),
            (5, V::Str("a".into())),
            (6, V::Str("a".into())),
            (7, V::Str("cpu".into())),
        ]]
    };
    let fixed_stats = || {
        vec![
            Stat { col: 7, min: Value::String("cpu".into()), max: Value::String("cpu".into()), has_nulls: false },
            Stat { col: 2, min: Value::from(5), max: Value::from(6), has_nulls: false },
            Stat { col: 4, min: Value::from(7), max: Value::from(7), has_nulls: false },
        ]
    };
    for (i, e) in corpus().into_iter().enumerate() {
        // a fixed chunk for the corpus: one row that satisfies the unconvertible operands
        cases.push(CCase { shape: 0, parts: vec![e], rows: fixed_rows(i), stats: fixed_stats() });
    }
    // multi-branch statements and literals above i64::MAX on the fixed chunk
    let px = |t: &str| parse_expr(&mut Toks::new(t));
    let cpu = "bin eq col 7 lit u:637075";
    let mem = "bin eq col 7 lit u:6d656d6f7279";
    for (shape, parts) in [
        (1u8, vec![px(cpu), px(mem)]),
        (1, vec![px(mem), px(cpu), px("bin gt col 2 lit i64:100")]),
        (2, vec![px(cpu), px(mem)]),
        (3, vec![px(cpu)]),
        (3, vec![px(cpu), px("bin gt col 2 lit i64:1")]),
        (4, vec![px(cpu)]),
        (5, vec![px(cpu)]),
        (0, vec![px("bin lt col 4 lit other:3130303030303030303030303030303030303030")]),
        (0, vec![px("bin le col 4 lit other:3138343436373434303733373039353531363135")]),
        (0, vec![px("bin lt col 2 lit other:39323233333732303336383534373735383038")]),
        (0, vec![px("bin le col 4 lit i64:9223372036854775807")]),
    ] {
        cases.push(CCase { shape, parts, rows: fixed_rows(0), stats: fixed_stats() });
    }
    for _ in 0..n {
        let mut r = rng.fork();
        let (shape, parts) = if r.chance(3, 10) {
            gen_stmt(&mut r, report)
        } else {
            let d = *r.pick(&[0u32, 1, 1, 1, 2, 3]);
            (0u8, vec![gen_expr(&mut r, d, report)])
        };
        let (rows, stats) = gen_chunk(&mut r);
        cases.push(CCase { shape, parts, rows, stats });
    }
    for c in cases {
        let o = check_c(rt, &eng, &c, model);
        report.impl_runs += 1;
        let text = format!("{} {}", c.shape, c.parts.iter().map(show_expr).collect::<Vec<_>>().join(" ; "));
        if o.plan_error {
            report.bump("C.plan_error_skipped");
            report.case(None);
            continue;
        }
        if c.shape == 6 {
            // not judged: the unchanged code pushes a filter that stands above a renaming
            // projection down to the raw column's statistics (noted in level_note)
            report.case(None);
            if !o.bad_rows.is_empty() {
                report.bump("C.unjudged.filter_above_renaming_projection.pruned_although_rows_answer");
                if !report.notes.iter().any(|n| n.starts_with("unjudged shape")) {
                    report.notes.push(format!("unjudged shape (filter above a renaming projection), observed on this tree: `{}` extracts {} and prunes a chunk whose rows appear in DataFusion's answer", c.sql(), o.impl_out));
                }
            }
            continue;
        }
        report.bump(if o.impl_out == "NONE" { "C.not_converted" } else { "C.converted" });
        if o.pruned {
            report.bump("C.chunk_pruned_checked_with_datafusion");
        }
        if o.engine_error {
            report.bump("C.engine_error_oracle_skipped");
        }
        report.case(if o.impl_out != "NONE" { Some(&text) } else { None });
        if report.samples.len() < 6 && o.impl_out != "NONE" {
            report.samples.push(json!({"leg": "C", "sql": c.sql(), "impl": o.impl_out, "model": o.model_out}));
        }
        if o.differs {
            report.disagreement(json!({
                "correspondence": "QueryEngine::extract_column_predicates (convert_expr_to_predicate) vs Model/StatsPrune.v convert",
                "case": c.json(), "impl": o.impl_out, "model": o.model_out, "shrunk": text,
                "oracle_failed": !o.bad_rows.is_empty(),
            }));
        }
        if !o.bad_rows.is_empty() {
            let all_known = o.bad_rows.iter().all(|(_, k)| *k);
            let (i, _) = o.bad_rows[0];
            report.bump(if all_known { "C.oracle.known_class" } else { "C.oracle.violation" });
            report.oracle_violation(
                if all_known { crate::KNOWN_CLASS } else { "" },
                &format!(
                    "the predicates extracted from `{}` ({}) prune a chunk although DataFusion's answer on that chunk's rows is not empty (e.g. row {:?}; all rows lie within the statistics)",
                    c.sql(),
                    o.impl_out,
                    c.rows[i].iter().map(|(k, v)| format!("{}={}", cname(*k), show_v(v))).collect::<Vec<_>>()
                ),
                c.json(),
            );
        }
    }
}
