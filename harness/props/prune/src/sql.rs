//! Leg C: QueryEngine::extract_column_predicates (SQL text -> logical plan ->
//! convert_expr_to_predicate) vs the model's `convert` on the same expression
//! tree.  The harness prints a generated expression tree as fully
//! parenthesised SQL over the columns of the default `metrics` table.
use crate::types::*;
use cardinalsin::query::{CacheConfig, QueryEngine, TieredCache};
use cardinalsin::StorageConfig;
use csv_common::{Model, Report, Rng};
use object_store::memory::InMemory;
use serde_json::json;
use std::sync::Arc;

#[derive(Clone, Debug)]
pub enum Sc {
    Utf8(String),
    I64(i64),
    F64(u64),
    Bool(bool),
    Null,
    /// a literal the conversion does not accept (UInt64)
    Other(String),
}

#[derive(Clone, Copy, Debug, PartialEq)]
pub enum Bop {
    Eq,
    Ne,
    Lt,
    Le,
    Gt,
    Ge,
    And,
    Or,
    Other,
}

#[derive(Clone, Debug)]
pub enum E {
    Col(usize),
    Lit(Sc),
    Bin(Box<E>, Bop, Box<E>),
    Btw(Box<E>, bool, Box<E>, Box<E>),
    InL(Box<E>, bool, Vec<E>),
    Not(Box<E>),
    /// anything else (function call, cast, IS NULL, LIKE ...), as SQL text
    Other(String),
}

fn op_sql(o: Bop) -> &'static str {
    match o {
        Bop::Eq => "=",
        Bop::Ne => "<>",
        Bop::Lt => "<",
        Bop::Le => "<=",
        Bop::Gt => ">",
        Bop::Ge => ">=",
        Bop::And => "AND",
        Bop::Or => "OR",
        Bop::Other => "+",
    }
}
fn op_tok(o: Bop) -> &'static str {
    match o {
        Bop::Eq => "eq",
        Bop::Ne => "ne",
        Bop::Lt => "lt",
        Bop::Le => "le",
        Bop::Gt => "gt",
        Bop::Ge => "ge",
        Bop::And => "and",
        Bop::Or => "or",
        Bop::Other => "other",
    }
}

pub fn to_sql(e: &E) -> String {
    match e {
        E::Col(c) => cname(*c),
        E::Lit(Sc::Utf8(s)) => format!("'{}'", s.replace('\'', "''")),
        E::Lit(Sc::I64(i)) => format!("{}", i),
        E::Lit(Sc::F64(b)) => format!("{:?}", f64::from_bits(*b)),
        E::Lit(Sc::Bool(b)) => format!("{}", b),
        E::Lit(Sc::Null) => "NULL".into(),
        E::Lit(Sc::Other(t)) => t.clone(),
        E::Bin(l, o, r) => format!("({} {} {})", to_sql(l), op_sql(*o), to_sql(r)),
        E::Btw(x, neg, lo, hi) => format!("({} {}BETWEEN {} AND {})", to_sql(x), if *neg { "NOT " } else { "" }, to_sql(lo), to_sql(hi)),
        E::InL(x, neg, l) => format!("({} {}IN ({}))", to_sql(x), if *neg { "NOT " } else { "" }, l.iter().map(to_sql).collect::<Vec<_>>().join(", ")),
        E::Not(x) => format!("(NOT {})", to_sql(x)),
        E::Other(t) => t.clone(),
    }
}

pub fn show_expr(e: &E) -> String {
    match e {
        E::Col(c) => format!("col {}", c),
        E::Lit(Sc::Utf8(s)) => format!("lit u:{}", hex(s.as_bytes())),
        E::Lit(Sc::I64(i)) => format!("lit i64:{}", i),
        E::Lit(Sc::F64(b)) => format!("lit f64:{}", b),
        E::Lit(Sc::Bool(b)) => format!("lit b:{}", *b as u8),
        E::Lit(Sc::Null) => "lit null".into(),
        E::Lit(Sc::Other(t)) => format!("lit other:{}", hex(t.as_bytes())),
        E::Bin(l, o, r) => format!("bin {} {} {}", op_tok(*o), show_expr(l), show_expr(r)),
        E::Btw(x, neg, lo, hi) => format!("btw {} {} {} {}", *neg as u8, show_expr(x), show_expr(lo), show_expr(hi)),
        E::InL(x, neg, l) => format!("inl {} {} {}{}", *neg as u8, show_expr(x), l.len(), l.iter().map(|i| format!(" {}", show_expr(i))).collect::<String>()),
        E::Not(x) => format!("not {}", show_expr(x)),
        E::Other(t) => format!("oth:{}", hex(t.as_bytes())),
    }
}

/// the model's syntax has no payload on `other` / `oth`
fn model_line(e: &E) -> String {
    let s = show_expr(e);
    let toks: Vec<String> = s
        .split(' ')
        .map(|t| {
            if t.starts_with("other:") {
                "other".to_string()
            } else if t.starts_with("oth:") {
                "oth".to_string()
            } else {
                t.to_string()
            }
        })
        .collect();
    format!("C {}", toks.join(" "))
}

pub fn parse_expr(t: &mut Toks) -> E {
    let k = t.next();
    if let Some(h) = k.strip_prefix("oth:") {
        return E::Other(String::from_utf8(unhex(h)).unwrap());
    }
    match k {
        "col" => E::Col(t.num()),
        "lit" => {
            let s = t.next();
            E::Lit(if let Some(h) = s.strip_prefix("u:") {
                Sc::Utf8(String::from_utf8(unhex(h)).unwrap())
            } else if let Some(i) = s.strip_prefix("i64:") {
                Sc::I64(i.parse().unwrap())
            } else if let Some(f) = s.strip_prefix("f64:") {
                Sc::F64(f.parse().unwrap())
            } else if let Some(h) = s.strip_prefix("other:") {
                Sc::Other(String::from_utf8(unhex(h)).unwrap())
            } else if s == "null" {
                Sc::Null
            } else {
                Sc::Bool(s == "b:1")
            })
        }
        "bin" => {
            let o = match t.next() {
                "eq" => Bop::Eq,
                "ne" => Bop::Ne,
                "lt" => Bop::Lt,
                "le" => Bop::Le,
                "gt" => Bop::Gt,
                "ge" => Bop::Ge,
                "and" => Bop::And,
                "or" => Bop::Or,
                _ => Bop::Other,
            };
            let l = parse_expr(t);
            let r = parse_expr(t);
            E::Bin(Box::new(l), o, Box::new(r))
        }
        "btw" => {
            let neg = t.next() == "1";
            let x = parse_expr(t);
            let lo = parse_expr(t);
            let hi = parse_expr(t);
            E::Btw(Box::new(x), neg, Box::new(lo), Box::new(hi))
        }
        "inl" => {
            let neg = t.next() == "1";
            let x = parse_expr(t);
            let n = t.num();
            let l = (0..n).map(|_| parse_expr(t)).collect();
            E::InL(Box::new(x), neg, l)
        }
        "not" => E::Not(Box::new(parse_expr(t))),
        other => panic!("bad expression token {}", other),
    }
}

pub struct Engine {
    pub engine: QueryEngine,
    _dir: tempfile::TempDir,
}

impl Engine {
    pub fn new(rt: &tokio::runtime::Runtime) -> Engine {
        let dir = tempfile::tempdir().unwrap();
        let engine = rt.block_on(async {
            let cache = Arc::new(
                TieredCache::new(CacheConfig { l1_size: 1 << 20, l2_size: 1 << 20, l2_dir: Some(dir.path().to_str().unwrap().to_string()) })
                    .await
                    .unwrap(),
            );
            QueryEngine::new(Arc::new(InMemory::new()), cache, &StorageConfig::default()).await.unwrap()
        });
        Engine { engine, _dir: dir }
    }
}

pub struct COut {
    pub impl_out: String,
    pub model_out: String,
    pub differs: bool,
    pub plan_error: bool,
}

pub fn check_c(rt: &tokio::runtime::Runtime, eng: &Engine, e: &E, model: &mut Model) -> COut {
    let sql = format!("SELECT * FROM metrics WHERE {}", to_sql(e));
    let r = rt.block_on(eng.engine.extract_column_predicates(&sql));
    let (impl_out, plan_error) = match r {
        Ok(ps) if ps.is_empty() => ("NONE".to_string(), false),
        Ok(ps) => (ps.iter().map(|p| show_pred(&from_impl(p))).collect::<Vec<_>>().join(" && "), false),
        Err(err) => (format!("ERR {}", err).chars().take(200).collect(), true),
    };
    let answer = model.ask(&model_line(e));
    let model_out = answer.split(" ; ").next().unwrap_or("").to_string();
    let differs = !model.is_null() && !plan_error && impl_out != model_out;
    COut { impl_out, model_out, differs, plan_error }
}

const STR_LITS: [&str; 7] = ["a", "cpu", "", "é", "it's", "10", "z"];
const BOOL_OTHERS: [&str; 3] = ["host IS NULL", "host LIKE 'a%'", "value_i64 IS NOT NULL"];
const VAL_OTHERS: [&str; 3] = ["abs(value_i64)", "(value_i64 + 1)", "CAST(value_f64 AS BIGINT)"];
const SQL_COLS: [usize; 8] = [2, 3, 4, 5, 6, 7, 2, 3];

fn gen_lit(rng: &mut Rng, report: &mut Report) -> E {
    match rng.below(100) {
        0..=34 => E::Lit(Sc::I64(*rng.pick(&[0i64, 5, -5, 10, 20, i64::MAX, i64::MIN + 1, 9007199254740993]))),
        35..=54 => E::Lit(Sc::F64(rng.pick(&[1.5f64, -0.0, 0.0, 2.0, -2.5, 1e300, 5e-324, 9007199254740992.0]).to_bits())),
        55..=79 => E::Lit(Sc::Utf8(rng.pick(&STR_LITS).to_string())),
        80..=85 => E::Lit(Sc::Bool(rng.chance(1, 2))),
        86..=90 => E::Lit(Sc::Null),
        91..=94 => {
            report.bump("C.literal.uint64");
            E::Lit(Sc::Other("18446744073709551615".into()))
        }
        _ => {
            report.bump("C.literal.non_literal_operand");
            if rng.chance(1, 2) { E::Other(rng.pick(&VAL_OTHERS).to_string()) } else { E::Col(*rng.pick(&SQL_COLS)) }
        }
    }
}

fn gen_operand(rng: &mut Rng, report: &mut Report) -> E {
    match rng.below(100) {
        0..=79 => E::Col(*rng.pick(&SQL_COLS)),
        80..=86 => {
            report.bump("C.time_column");
            E::Col(0)
        }
        87..=93 => {
            report.bump("C.operand.expression");
            E::Other(rng.pick(&VAL_OTHERS).to_string())
        }
        _ => {
            report.bump("C.operand.literal_on_the_left");
            gen_lit(rng, report)
        }
    }
}

pub fn gen_expr(rng: &mut Rng, depth: u32, report: &mut Report) -> E {
    let r = rng.below(100);
    if depth > 0 && r < 50 {
        let a = gen_expr(rng, depth - 1, report);
        return if r < 20 {
            E::Bin(Box::new(a), Bop::And, Box::new(gen_expr(rng, depth - 1, report)))
        } else if r < 40 {
            E::Bin(Box::new(a), Bop::Or, Box::new(gen_expr(rng, depth - 1, report)))
        } else {
            E::Not(Box::new(a))
        };
    }
    match rng.below(100) {
        0..=54 => {
            let o = *rng.pick(&[Bop::Eq, Bop::Ne, Bop::Lt, Bop::Le, Bop::Gt, Bop::Ge]);
            E::Bin(Box::new(gen_operand(rng, report)), o, Box::new(gen_lit(rng, report)))
        }
        55..=72 => {
            let neg = rng.chance(2, 5);
            if neg {
                report.bump("C.not_between");
            }
            E::Btw(Box::new(gen_operand(rng, report)), neg, Box::new(gen_lit(rng, report)), Box::new(gen_lit(rng, report)))
        }
        73..=90 => {
            let neg = rng.chance(2, 5);
            let n = rng.range_usize(1, 3);
            let l = (0..n).map(|_| gen_lit(rng, report)).collect();
            E::InL(Box::new(gen_operand(rng, report)), neg, l)
        }
        91..=95 => E::Other(rng.pick(&BOOL_OTHERS).to_string()),
        _ => {
            // a boolean column-less operand of AND / OR, or arithmetic
            E::Bin(Box::new(gen_operand(rng, report)), Bop::Other, Box::new(gen_lit(rng, report)))
        }
    }
}

fn corpus() -> Vec<E> {
    [
        "btw 1 col 2 lit i64:10 lit i64:20",
        "btw 0 col 2 lit i64:10 lit i64:20",
        "not btw 0 col 2 lit i64:10 lit i64:20",
        "bin and bin eq col 5 lit u:61 btw 1 col 2 lit i64:10 lit i64:20",
        "inl 1 col 2 2 lit i64:1 lit i64:2",
        "inl 0 col 5 2 lit u:61 lit u:62",
        "bin le col 2 lit i64:-5",
        "bin ge col 3 lit f64:4609434218613702656",
        "bin le col 3 lit i64:9007199254740995",
        "bin eq col 2 lit other:3138343436373434303733373039353531363135",
        "bin or bin eq col 2 lit null bin eq col 5 lit b:1",
        "bin and bin gt col 0 lit i64:5 bin eq col 5 lit u:61",
        "bin eq lit i64:5 col 2",
        "bin and col 5 lit b:1",
        "not bin gt col 2 lit i64:5",
        "bin and bin gt col 2 lit i64:1 oth:686f7374204c494b452027612527",
    ]
    .iter()
    .map(|t| parse_expr(&mut Toks::new(t)))
    .collect()
}

pub fn run_c(rt: &tokio::runtime::Runtime, rng: &mut Rng, n: usize, model: &mut Model, report: &mut Report) {
    let eng = Engine::new(rt);
    let mut cases = corpus();
    for _ in 0..n {
        let mut r = rng.fork();
        let d = *r.pick(&[0u32, 0, 1, 1, 2, 3]);
        cases.push(gen_expr(&mut r, d, report));
    }
    for e in cases {
        let o = check_c(rt, &eng, &e, model);
        report.impl_runs += 1;
        let text = show_expr(&e);
        if o.plan_error {
            report.bump("C.plan_error_skipped");
            report.case(None);
            continue;
        }
        report.bump(if o.impl_out == "NONE" { "C.not_converted" } else { "C.converted" });
        report.case(if o.impl_out != "NONE" { Some(&text) } else { None });
        if report.samples.len() < 6 && o.impl_out != "NONE" {
            report.samples.push(json!({"leg": "C", "sql": to_sql(&e), "impl": o.impl_out, "model": o.model_out}));
        }
        if o.differs {
            report.disagreement(json!({
                "correspondence": "QueryEngine::extract_column_predicates (convert_expr_to_predicate) vs Model/StatsPrune.v convert",
                "case": {"leg": "C", "expr": text, "sql": to_sql(&e)}, "impl": o.impl_out, "model": o.model_out, "shrunk": text,
                "oracle_failed": false,
            }));
        }
    }
}
