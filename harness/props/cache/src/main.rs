//! csv-cache — correspondence + oracle for C16 (the tiered cache is transparent).
//!
//! Every generated history runs on the real `CachedObjectStore` / `TieredCache`
//! (moka L1, optional foyer L2 in a temp dir) stacked on `SchedStore` handles
//! around an `InMemory` store.  Sequential operations run on client 0
//! (uncontrolled); concurrent readers are spawned tasks on the current-thread
//! runtime, each with its own SchedStore client id (picked by a task-local in
//! `DispatchStore`), parked in front of their inner-store request by the
//! controller and released in the generated order, with new-object writes and
//! invalidations in between.
//!
//! Compared per read, token by token:
//!   * implementation vs extracted Coq model (modelrun-cache): result (length,
//!     FNV-1a of the bytes, GetResult.range, meta.size, error kind) and the tier
//!     that answered.  The tier the implementation's hit/miss counters report is
//!     handed to the model as the eviction oracle's choice; the model answers
//!     with the tier that can serve the read in ITS state, so a hit on an entry
//!     the model never inserted is a disagreement.
//!   * oracle (no model): the same request issued directly against the raw
//!     InMemory store; the cached store must return the same bytes / range /
//!     size, fail when the raw store fails, and fail for absent keys.
use async_trait::async_trait;
use bytes::Bytes;
use cardinalsin::query::{CacheConfig, CachedObjectStore, TieredCache};
use csv_common::sched::{Action, Controller, Hub, SchedStore};
use csv_common::{ddmin, Args, Model, Report, Rng};
use futures::stream::BoxStream;
use futures::FutureExt;
use object_store::memory::InMemory;
use object_store::path::Path;
use object_store::{
    GetResultPayload,
    GetOptions, GetRange, GetResult, ListResult, MultipartUpload, ObjectMeta, ObjectStore, PutMode,
    PutMultipartOpts, PutOptions, PutPayload, PutResult, Result as OsResult,
};
use serde_json::json;
use std::collections::BTreeMap;
use std::fmt;
use std::panic::AssertUnwindSafe;
use std::sync::Arc;

tokio::task_local! {
    static READER: usize;
}

const MAX_READERS: usize = 64;

/// Routes every request to the SchedStore handle of the reader task that issued it.
struct DispatchStore {
    handles: Vec<Arc<SchedStore>>,
}
impl DispatchStore {
    fn h(&self) -> &Arc<SchedStore> {
        let c = READER.try_with(|r| *r).unwrap_or(0);
        &self.handles[c.min(self.handles.len() - 1)]
    }
}
impl fmt::Debug for DispatchStore {
    fn fmt(&self, f: &mut fmt::Formatter<'_>) -> fmt::Result {
        write!(f, "DispatchStore")
    }
}
impl fmt::Display for DispatchStore {
    fn fmt(&self, f: &mut fmt::Formatter<'_>) -> fmt::Result {
        write!(f, "DispatchStore")
    }
}
#[async_trait]
impl ObjectStore for DispatchStore {
    async fn put_opts(&self, location: &Path, payload: PutPayload, opts: PutOptions) -> OsResult<PutResult> {
        self.h().put_opts(location, payload, opts).await
    }
    async fn put_multipart_opts(&self, location: &Path, opts: PutMultipartOpts) -> OsResult<Box<dyn MultipartUpload>> {
        self.h().put_multipart_opts(location, opts).await
    }
    async fn get_opts(&self, location: &Path, options: GetOptions) -> OsResult<GetResult> {
        self.h().get_opts(location, options).await
    }
    async fn delete(&self, location: &Path) -> OsResult<()> {
        self.h().delete(location).await
    }
    fn list(&self, prefix: Option<&Path>) -> BoxStream<'_, OsResult<ObjectMeta>> {
        self.handles[0].list(prefix)
    }
    async fn list_with_delimiter(&self, prefix: Option<&Path>) -> OsResult<ListResult> {
        self.h().list_with_delimiter(prefix).await
    }
    async fn copy(&self, from: &Path, to: &Path) -> OsResult<()> {
        self.h().copy(from, to).await
    }
    async fn copy_if_not_exists(&self, from: &Path, to: &Path) -> OsResult<()> {
        self.h().copy_if_not_exists(from, to).await
    }
}

/// Sits directly under CachedObjectStore.  Delivers every body as a stream of
/// 1 KiB parts (InMemory never streams in several parts); on demand breaks the
/// next whole-object body after k parts, refuses the next upload without
/// touching the store, and delays ranged reads proportionally to their size.
struct FaultStore {
    inner: Arc<dyn ObjectStore>,
    reject_next_put: std::sync::atomic::AtomicBool,
    break_after: std::sync::Mutex<Option<usize>>,
    range_latency: std::sync::atomic::AtomicBool,
}
impl fmt::Debug for FaultStore {
    fn fmt(&self, f: &mut fmt::Formatter<'_>) -> fmt::Result {
        write!(f, "FaultStore")
    }
}
impl fmt::Display for FaultStore {
    fn fmt(&self, f: &mut fmt::Formatter<'_>) -> fmt::Result {
        write!(f, "FaultStore")
    }
}
fn injected(what: &str) -> object_store::Error {
    object_store::Error::Generic { store: "FaultStore", source: what.to_string().into() }
}
#[async_trait]
impl ObjectStore for FaultStore {
    async fn put_opts(&self, location: &Path, payload: PutPayload, opts: PutOptions) -> OsResult<PutResult> {
        if self.reject_next_put.swap(false, std::sync::atomic::Ordering::SeqCst) {
            return Err(injected("upload refused"));
        }
        self.inner.put_opts(location, payload, opts).await
    }
    async fn put_multipart_opts(&self, location: &Path, opts: PutMultipartOpts) -> OsResult<Box<dyn MultipartUpload>> {
        self.inner.put_multipart_opts(location, opts).await
    }
    async fn get_opts(&self, location: &Path, options: GetOptions) -> OsResult<GetResult> {
        let ranged = options.range.is_some();
        let plain_whole = !ranged && !options.head;
        let r = self.inner.get_opts(location, options).await?;
        let (meta, range, attributes) = (r.meta.clone(), r.range.clone(), r.attributes.clone());
        let body = r.bytes().await?;
        if ranged && self.range_latency.load(std::sync::atomic::Ordering::SeqCst) {
            tokio::time::sleep(std::time::Duration::from_millis(1 + body.len() as u64 / 60)).await;
        }
        let brk = if plain_whole { self.break_after.lock().unwrap().take() } else { None };
        let mut parts: Vec<OsResult<Bytes>> = Vec::new();
        let mut off = 0;
        while off < body.len() {
            if brk == Some(parts.len()) {
                break;
            }
            let end = (off + 1024).min(body.len());
            parts.push(Ok(body.slice(off..end)));
            off = end;
        }
        if let Some(k) = brk {
            if parts.len() <= k {
                parts.truncate(k);
            }
            parts.push(Err(injected("connection reset in the middle of the body")));
        }
        Ok(GetResult { payload: GetResultPayload::Stream(Box::pin(futures::stream::iter(parts))), meta, range, attributes })
    }
    async fn delete(&self, location: &Path) -> OsResult<()> {
        self.inner.delete(location).await
    }
    fn list(&self, prefix: Option<&Path>) -> BoxStream<'_, OsResult<ObjectMeta>> {
        self.inner.list(prefix)
    }
    async fn list_with_delimiter(&self, prefix: Option<&Path>) -> OsResult<ListResult> {
        self.inner.list_with_delimiter(prefix).await
    }
    async fn copy(&self, from: &Path, to: &Path) -> OsResult<()> {
        self.inner.copy(from, to).await
    }
    async fn copy_if_not_exists(&self, from: &Path, to: &Path) -> OsResult<()> {
        self.inner.copy_if_not_exists(from, to).await
    }
}

// ------------------------------------------------------------------ cases ----
/// Paths that are prefixes of each other, share file names across directories,
/// differ in case or by one trailing character.
const KEYS: &[&str] = &[
    "a",
    "a/b",
    "a/b/c",
    "a/bc",
    "ab",
    "b/a",
    "A/b",
    "a/b.parquet",
    "a/b.parque",
    "t1/chunk_1",
    "t2/chunk_1",
    "t1/chunk_10",
    "t1/chunk_1/part",
    "default/data/2024/01/01/00/chunk_0001.parquet",
    "default/data/2024/01/01/00/chunk_0001.parquet.tmp",
    "default/data/2024/01/01/01/chunk_0001.parquet",
];

#[derive(Clone, Debug, PartialEq)]
struct Config {
    l1: usize,
    l2: usize,
    dir: bool,
}

#[derive(Clone, Debug, PartialEq)]
enum Tag {
    Of(usize),
    Bogus,
}
#[derive(Clone, Debug, PartialEq)]
enum Cond {
    None,
    Star,
    Tags(Vec<Tag>),
}
#[derive(Clone, Debug, PartialEq)]
enum Date {
    None,
    Abs(i64),
    Rel(usize, i64),
}
#[derive(Clone, Debug, PartialEq)]
enum RangeSpec {
    B(usize, usize),
    O(usize),
    S(usize),
}
#[derive(Clone, Debug, PartialEq)]
enum Req {
    Get(usize),
    Opts { k: usize, range: Option<RangeSpec>, im: Cond, inm: Cond, md: Date, um: Date, version: bool, head: bool },
    Range(usize, usize, usize),
    Head(usize),
}
#[derive(Clone, Debug, PartialEq)]
enum Op {
    /// via: 0 raw inner store (what the ingester does), 1 wrapper put, 2 wrapper put_opts(Create),
    /// 3 wrapper put_multipart, 4 wrapper copy, 5 wrapper rename, 6 wrapper copy_if_not_exists
    Put { k: usize, len: usize, fill: u32, via: u8 },
    Evict(usize),
    /// an upload of a (new) key through the wrapper (via 1 put, 2 put_opts) that the inner store refuses
    PutRejected { k: usize, len: usize, fill: u32, via: u8 },
    /// whole-object get whose body breaks after `parts` 1 KiB parts (if it reaches the inner store)
    ReadBroken(usize, usize),
    /// get_ranges with ranged reads delayed proportionally to their size
    Ranges(usize, Vec<(usize, usize)>),
    Read(Req),
    Start(u32, Req),
    Go(u32),
}

fn content(len: usize, fill: u32) -> Vec<u8> {
    (0..len).map(|i| (fill.wrapping_mul(37).wrapping_add(i as u32 * 11).wrapping_add(i as u32 / 256) & 0xff) as u8).collect()
}

impl Req {
    fn key(&self) -> usize {
        match self {
            Req::Get(k) | Req::Range(k, _, _) | Req::Head(k) => *k,
            Req::Opts { k, .. } => *k,
        }
    }
    fn cached_path(&self) -> bool {
        match self {
            Req::Get(_) => true,
            Req::Opts { range, im, inm, md, um, version, head, .. } => {
                range.is_none() && *im == Cond::None && *inm == Cond::None && *md == Date::None && *um == Date::None && !version && !head
            }
            _ => false,
        }
    }
}

// symbolic text form of a case (replay files, shrinking, distinct counting)
fn enc_cond(c: &Cond) -> String {
    match c {
        Cond::None => "-".into(),
        Cond::Star => "*".into(),
        Cond::Tags(v) if v.is_empty() => "e".into(),
        Cond::Tags(v) => v.iter().map(|t| match t { Tag::Of(k) => format!("t{}", k), Tag::Bogus => "x".into() }).collect::<Vec<_>>().join(","),
    }
}
fn dec_cond(s: &str) -> Cond {
    match s {
        "-" => Cond::None,
        "*" => Cond::Star,
        "e" => Cond::Tags(vec![]),
        _ => Cond::Tags(s.split(',').map(|t| if t == "x" { Tag::Bogus } else { Tag::Of(t[1..].parse().unwrap()) }).collect()),
    }
}
fn enc_date(d: &Date) -> String {
    match d {
        Date::None => "-".into(),
        Date::Abs(n) => format!("a{}", n),
        Date::Rel(k, d) => format!("r{}:{}", k, d),
    }
}
fn dec_date(s: &str) -> Date {
    if s == "-" {
        Date::None
    } else if let Some(r) = s.strip_prefix('a') {
        Date::Abs(r.parse().unwrap())
    } else {
        let r = &s[1..];
        let (k, d) = r.split_once(':').unwrap();
        Date::Rel(k.parse().unwrap(), d.parse().unwrap())
    }
}
fn enc_range(r: &Option<RangeSpec>) -> String {
    match r {
        None => "-".into(),
        Some(RangeSpec::B(s, e)) => format!("b{}-{}", s, e),
        Some(RangeSpec::O(o)) => format!("o{}", o),
        Some(RangeSpec::S(n)) => format!("s{}", n),
    }
}
fn dec_range(s: &str) -> Option<RangeSpec> {
    if s == "-" {
        return None;
    }
    let rest = &s[1..];
    Some(match &s[..1] {
        "b" => {
            let (a, b) = rest.split_once('-').unwrap();
            RangeSpec::B(a.parse().unwrap(), b.parse().unwrap())
        }
        "o" => RangeSpec::O(rest.parse().unwrap()),
        _ => RangeSpec::S(rest.parse().unwrap()),
    })
}
fn enc_req(q: &Req) -> String {
    match q {
        Req::Get(k) => format!("G {}", k),
        Req::Range(k, s, e) => format!("N {} {} {}", k, s, e),
        Req::Head(k) => format!("H {}", k),
        Req::Opts { k, range, im, inm, md, um, version, head } => format!(
            "O {} {} {} {} {} {} {} {}",
            k, enc_range(range), enc_cond(im), enc_cond(inm), enc_date(md), enc_date(um), *version as u8, *head as u8
        ),
    }
}
fn dec_req(f: &[&str]) -> Req {
    match f[0] {
        "G" => Req::Get(f[1].parse().unwrap()),
        "N" => Req::Range(f[1].parse().unwrap(), f[2].parse().unwrap(), f[3].parse().unwrap()),
        "H" => Req::Head(f[1].parse().unwrap()),
        _ => Req::Opts {
            k: f[1].parse().unwrap(),
            range: dec_range(f[2]),
            im: dec_cond(f[3]),
            inm: dec_cond(f[4]),
            md: dec_date(f[5]),
            um: dec_date(f[6]),
            version: f[7] == "1",
            head: f[8] == "1",
        },
    }
}
fn encode(ops: &[Op]) -> String {
    ops.iter()
        .map(|o| match o {
            Op::Put { k, len, fill, via } => format!("P {} {} {} {}", k, len, fill, via),
            Op::Evict(k) => format!("E {}", k),
            Op::PutRejected { k, len, fill, via } => format!("J {} {} {} {}", k, len, fill, via),
            Op::ReadBroken(k, n) => format!("X {} {}", k, n),
            Op::Ranges(k, rs) => format!("M {} {}", k, rs.iter().map(|(a, b)| format!("{}-{}", a, b)).collect::<Vec<_>>().join(",")),
            Op::Read(q) => format!("R {}", enc_req(q)),
            Op::Start(l, q) => format!("S {} {}", l, enc_req(q)),
            Op::Go(l) => format!("W {}", l),
        })
        .collect::<Vec<_>>()
        .join(";")
}
fn decode(s: &str) -> Vec<Op> {
    s.split(';')
        .filter(|t| !t.trim().is_empty())
        .map(|t| {
            let f: Vec<&str> = t.trim().split(' ').collect();
            match f[0] {
                "P" => Op::Put { k: f[1].parse().unwrap(), len: f[2].parse().unwrap(), fill: f[3].parse().unwrap(), via: f.get(4).and_then(|x| x.parse().ok()).unwrap_or(2) },
                "E" => Op::Evict(f[1].parse().unwrap()),
                "J" => Op::PutRejected { k: f[1].parse().unwrap(), len: f[2].parse().unwrap(), fill: f[3].parse().unwrap(), via: f[4].parse().unwrap() },
                "X" => Op::ReadBroken(f[1].parse().unwrap(), f[2].parse().unwrap()),
                "M" => Op::Ranges(
                    f[1].parse().unwrap(),
                    f.get(2).map(|t| t.split(',').filter_map(|r| r.split_once('-')).map(|(a, b)| (a.parse().unwrap(), b.parse().unwrap())).collect()).unwrap_or_default(),
                ),
                "R" => Op::Read(dec_req(&f[1..])),
                "S" => Op::Start(f[1].parse().unwrap(), dec_req(&f[2..])),
                _ => Op::Go(f[1].parse().unwrap()),
            }
        })
        .collect()
}
fn enc_cfg(c: &Config) -> String {
    format!("{},{},{}", c.l1, c.l2, c.dir as u8)
}
fn dec_cfg(s: &str) -> Config {
    let f: Vec<&str> = s.split(',').collect();
    Config { l1: f[0].parse().unwrap(), l2: f[1].parse().unwrap(), dir: f[2] == "1" }
}

/// Drops `W` of readers that never arrived / already went, appends a `W` for every reader left parked.
fn normalize(ops: &[Op]) -> Vec<Op> {
    let mut out = Vec::new();
    let mut waiting: Vec<u32> = Vec::new();
    let mut seen: Vec<u32> = Vec::new();
    for o in ops {
        match o {
            Op::Start(l, _) => {
                if seen.contains(l) || seen.len() >= MAX_READERS - 1 {
                    continue;
                }
                seen.push(*l);
                waiting.push(*l);
                out.push(o.clone());
            }
            Op::Go(l) => {
                if let Some(i) = waiting.iter().position(|x| x == l) {
                    waiting.remove(i);
                    out.push(o.clone());
                }
            }
            _ => out.push(o.clone()),
        }
    }
    for l in waiting {
        out.push(Op::Go(l));
    }
    out
}

// ------------------------------------------------------- canonical results ----
fn fnv(b: &[u8]) -> u64 {
    let mut h: u64 = 0xcbf29ce484222325;
    for x in b {
        h = (h ^ (*x as u64)).wrapping_mul(0x100000001b3);
    }
    h
}

fn err_code(e: &object_store::Error) -> String {
    use object_store::Error as E;
    match e {
        E::NotFound { .. } => "E1".into(),
        E::Precondition { .. } => "E2".into(),
        E::NotModified { .. } => "E3".into(),
        E::AlreadyExists { .. } => "E5".into(),
        E::Generic { store, source } => {
            if *store == "InMemory" {
                "E4".into()
            } else if *store == "CachedObjectStore" {
                match source.downcast_ref::<cardinalsin::Error>() {
                    Some(cardinalsin::Error::ObjectStore(inner)) => {
                        let c = err_code(inner);
                        match c.strip_prefix('E').and_then(|n| n.parse::<u32>().ok()) {
                            Some(n) => format!("E{}", 100 + n),
                            None => format!("Ewrap({})", c),
                        }
                    }
                    Some(other) => format!("Ecache({})", other.to_string().chars().take(40).collect::<String>().replace([';', ' '], "_")),
                    None => "Ecache(?)".into(),
                }
            } else {
                format!("Egeneric({})", store)
            }
        }
        other => format!("Eother({})", other.to_string().chars().take(30).collect::<String>().replace([';', ' '], "_")),
    }
}

#[derive(Clone, Debug)]
struct Resolved {
    path: Path,
    kind: u8, // 0 get, 1 get_opts, 2 get_range, 3 head
    opts: GetOptions,
    range: (usize, usize),
}

/// Issue a request against any ObjectStore and canonicalise the outcome.
async fn issue(store: &dyn ObjectStore, r: &Resolved) -> String {
    match r.kind {
        0 | 1 => {
            let res = if r.kind == 0 { store.get(&r.path).await } else { store.get_opts(&r.path, r.opts.clone()).await };
            match res {
                Ok(g) => {
                    let range = g.range.clone();
                    let size = g.meta.size;
                    match g.bytes().await {
                        Ok(b) => format!("ok:{}:{:016x}:{}-{}:{}", b.len(), fnv(&b), range.start, range.end, size),
                        Err(e) => err_code(&e),
                    }
                }
                Err(e) => err_code(&e),
            }
        }
        2 => match store.get_range(&r.path, r.range.0..r.range.1).await {
            Ok(b) => format!("ok:{}:{:016x}", b.len(), fnv(&b)),
            Err(e) => err_code(&e),
        },
        _ => match store.head(&r.path).await {
            Ok(m) => format!("ok:size={}", m.size),
            Err(e) => err_code(&e),
        },
    }
}

/// The property's own predicate for one read: same bytes / range / size as the
/// backing store; where the backing store fails, the read fails with the same
/// kind (modulo the wrapper's re-wrapping); for an object the store does not
/// have any failure will do (the exact kind is the model comparison's business).
fn acceptable(got: &str, want: &str) -> bool {
    strip_wrap(got) == want || (want == "E1" && got.starts_with('E'))
}

fn strip_wrap(s: &str) -> String {
    if let Some(n) = s.strip_prefix('E').and_then(|n| n.parse::<u32>().ok()) {
        if n >= 100 {
            return format!("E{}", n - 100);
        }
    }
    s.to_string()
}

// ------------------------------------------------------------ implementation ----
struct Meta {
    etag: String,
    mtime: i64,
}

struct Run {
    model_line: String,
    impl_out: String,
    bad: Vec<String>,
    obs: Vec<char>,
    results: Vec<String>,
    put_ok: usize,
    parked_max: usize,
    same_key_parked: usize,
    appeared_in_flight: usize,
}

fn resolve(q: &Req, metas: &BTreeMap<usize, Meta>) -> (Resolved, String) {
    let path = Path::from(KEYS[q.key() % KEYS.len()]);
    let tag = |t: &Tag| -> String {
        match t {
            Tag::Of(k) => metas.get(k).map(|m| m.etag.clone()).unwrap_or_else(|| "999999".into()),
            Tag::Bogus => "999999".into(),
        }
    };
    let cond = |c: &Cond| -> (Option<String>, String) {
        match c {
            Cond::None => (None, "-".into()),
            Cond::Star => (Some("*".into()), "*".into()),
            Cond::Tags(v) if v.is_empty() => (Some(String::new()), "e".into()),
            Cond::Tags(v) => {
                let ts: Vec<String> = v.iter().map(tag).collect();
                (Some(ts.join(", ")), ts.join(","))
            }
        }
    };
    let date = |d: &Date| -> (Option<chrono::DateTime<chrono::Utc>>, String) {
        let ns = match d {
            Date::None => return (None, "-".into()),
            Date::Abs(n) => *n,
            Date::Rel(k, delta) => metas.get(k).map(|m| m.mtime.saturating_add(*delta)).unwrap_or(0),
        };
        (Some(chrono::DateTime::from_timestamp_nanos(ns)), ns.to_string())
    };
    match q {
        Req::Get(k) => (Resolved { path, kind: 0, opts: GetOptions::default(), range: (0, 0) }, format!("G {}", k)),
        Req::Range(k, s, e) => (Resolved { path, kind: 2, opts: GetOptions::default(), range: (*s, *e) }, format!("N {} {} {}", k, s, e)),
        Req::Head(k) => (Resolved { path, kind: 3, opts: GetOptions::default(), range: (0, 0) }, format!("H {}", k)),
        Req::Opts { k, range, im, inm, md, um, version, head } => {
            let (im_o, im_s) = cond(im);
            let (inm_o, inm_s) = cond(inm);
            let (md_o, md_s) = date(md);
            let (um_o, um_s) = date(um);
            let opts = GetOptions {
                if_match: im_o,
                if_none_match: inm_o,
                if_modified_since: md_o,
                if_unmodified_since: um_o,
                range: range.as_ref().map(|r| match r {
                    RangeSpec::B(s, e) => GetRange::Bounded(*s..*e),
                    RangeSpec::O(o) => GetRange::Offset(*o),
                    RangeSpec::S(n) => GetRange::Suffix(*n),
                }),
                version: if *version { Some("v1".into()) } else { None },
                head: *head,
            };
            (
                Resolved { path, kind: 1, opts, range: (0, 0) },
                format!("O {} {} {} {} {} {} {} {}", k, enc_range(range), im_s, inm_s, md_s, um_s, *version as u8, *head as u8),
            )
        }
    }
}

fn tier_of(before: &cardinalsin::query::CacheStats, after: &cardinalsin::query::CacheStats, cached_path: bool) -> char {
    if after.l1_hits > before.l1_hits {
        '1'
    } else if after.l2_hits > before.l2_hits {
        '2'
    } else if after.l1_misses > before.l1_misses {
        'M'
    } else if cached_path {
        '?'
    } else {
        'B'
    }
}

struct Parked {
    label: u32,
    cid: usize,
    resolved: Resolved,
    present_at_arrival: bool,
    handle: tokio::task::JoinHandle<String>,
}

/// A reader that neither completed nor reached the inner store within BLOCK_MS:
/// it waits for something else (e.g. for another reader loading the same key).
struct Blocked {
    index: usize, // reader index in the model
    label: u32,
    cid: usize, // 0 = uncontrolled (a sequential read)
    resolved: Resolved,
    present_at_arrival: bool,
    handle: tokio::task::JoinHandle<String>,
}

const BLOCK_MS: u64 = 400;
const STEP_TIMEOUT_MS: u64 = 5_000;
const DRAIN_MS: u64 = 4_000;

fn check_concurrent(bad: &mut Vec<String>, what: &str, path: &Path, got: &str, want: &str, present_at_arrival: bool) {
    if !acceptable(got, want) && !(strip_wrap(got) == "E1" && !present_at_arrival) {
        let emphasis = if want.starts_with("ok") && !got.starts_with("ok") { " (the read failed although the store holds the object)" } else { "" };
        bad.push(format!("{}: concurrent read of {:?} returned {} but the backing store answers {}{}", what, path.to_string(), got, want, emphasis));
    }
}

async fn run_case(cfg: &Config, ops: &[Op]) -> Result<Run, String> {
    let ops = normalize(ops);
    let raw: Arc<dyn ObjectStore> = Arc::new(InMemory::new());
    let hub = Hub::new(raw.clone());
    let handles: Vec<Arc<SchedStore>> = (0..=MAX_READERS).map(|c| hub.client(c)).collect();
    let controlled: Vec<usize> = (1..=MAX_READERS).collect();
    let mut ctl: Controller = hub.attach(&controlled);
    let dispatch: Arc<dyn ObjectStore> = Arc::new(DispatchStore { handles });
    let td = tempfile::tempdir().map_err(|e| format!("tempdir: {}", e))?;
    let cache = Arc::new(
        TieredCache::new(CacheConfig {
            l1_size: cfg.l1,
            l2_size: cfg.l2,
            l2_dir: if cfg.dir { Some(td.path().to_str().unwrap().to_string()) } else { None },
        })
        .await
        .map_err(|e| format!("TieredCache::new: {}", e))?,
    );
    let fault = Arc::new(FaultStore {
        inner: dispatch,
        reject_next_put: std::sync::atomic::AtomicBool::new(false),
        break_after: std::sync::Mutex::new(None),
        range_latency: std::sync::atomic::AtomicBool::new(false),
    });
    let cs = Arc::new(CachedObjectStore::new(fault.clone(), cache.clone()));

    let mut metas: BTreeMap<usize, Meta> = BTreeMap::new();
    let mut line: Vec<String> = vec![format!("C {}", cfg.dir as u8)];
    let mut outs: Vec<String> = Vec::new();
    let mut bad: Vec<String> = Vec::new();
    let mut obs_all: Vec<char> = Vec::new();
    let mut results: Vec<String> = Vec::new();
    let mut parked: Vec<Parked> = Vec::new();
    let mut blocked: Vec<Blocked> = Vec::new();
    let mut arrivals: usize = 0; // reader index in the model = order of arrival
    let mut index_of: BTreeMap<u32, usize> = BTreeMap::new();
    let mut put_ok = 0usize;
    let mut parked_max = 0usize;
    let mut same_key_parked = 0usize;
    let mut appeared_in_flight = 0usize;
    let mut next_cid = 1usize;
    let mut tmp_seq = 0usize;
    let mut synthetic_label = 1_000_000u32;

    // Looks at every blocked reader once: finished -> `F`, reached the inner store -> `K` (now parked).
    macro_rules! poll_blocked {
        () => {{
            let mut j = 0;
            while j < blocked.len() {
                let cid = blocked[j].cid;
                if cid > 0 {
                    let _ = tokio::time::timeout(std::time::Duration::from_millis(2), ctl.wait_for(cid)).await;
                }
                if blocked[j].handle.is_finished() {
                    let b = blocked.remove(j);
                    if cid > 0 {
                        let _ = ctl.take_note(cid);
                    }
                    let got = b.handle.await.unwrap_or_else(|_| "PANIC".into());
                    let want = issue(raw.as_ref(), &b.resolved).await;
                    check_concurrent(&mut bad, &format!("reader {} (had to wait for another reader)", b.index), &b.resolved.path, &got, &want, b.present_at_arrival);
                    results.push(got.clone());
                    line.push(format!("F {}", b.index));
                    outs.push(got);
                } else if cid > 0 && ctl.has_pending(cid) {
                    let b = blocked.remove(j);
                    line.push(format!("K {}", b.index));
                    outs.push("parked".into());
                    parked.push(Parked { label: b.label, cid: b.cid, resolved: b.resolved, present_at_arrival: b.present_at_arrival, handle: b.handle });
                } else {
                    j += 1;
                }
            }
        }};
    }
    // Lets the parked reader at `pos` perform its inner request and run to completion.
    macro_rules! release {
        ($pos:expr, $what:expr) => {{
            let p = parked.remove($pos);
            let mut guard = 0;
            let mut hung = false;
            loop {
                if tokio::time::timeout(std::time::Duration::from_millis(STEP_TIMEOUT_MS), ctl.step(p.cid, Action::Proceed)).await.is_err() {
                    hung = true;
                    break;
                }
                guard += 1;
                if !ctl.has_pending(p.cid) || guard > 8 {
                    break;
                }
            }
            let _ = ctl.take_note(p.cid);
            let idx = index_of.get(&p.label).copied().unwrap_or(0);
            let got = if hung {
                p.handle.abort();
                bad.push(format!("{}: concurrent read of {:?} did not complete within {} ms after its inner-store request was released", $what, p.resolved.path.to_string(), STEP_TIMEOUT_MS));
                "HUNG".to_string()
            } else {
                p.handle.await.unwrap_or_else(|_| "PANIC".into())
            };
            let want = issue(raw.as_ref(), &p.resolved).await;
            if !hung {
                check_concurrent(&mut bad, $what, &p.resolved.path, &got, &want, p.present_at_arrival);
            }
            if got.starts_with("ok") && !p.present_at_arrival {
                appeared_in_flight += 1;
            }
            results.push(got.clone());
            line.push(format!("W {}", idx));
            outs.push(got);
        }};
    }

    for (i, op) in ops.iter().enumerate() {
        match op {
            Op::Put { k, len, fill, via } => {
                let path = Path::from(KEYS[*k % KEYS.len()]);
                let data = content(*len, *fill);
                let exists = raw.head(&path).await.is_ok();
                // write-once: the overwriting paths are only used for keys that do not exist yet
                let via = if exists && !matches!(*via, 2 | 6) { 2 } else { *via };
                let payload = PutPayload::from(data.clone());
                let tmp = Path::from(format!("tmp/upload_{}", tmp_seq));
                tmp_seq += 1;
                if matches!(via, 4 | 5 | 6) {
                    raw.put(&tmp, payload.clone()).await.map_err(|e| format!("raw put of the temp object: {}", e))?;
                }
                let r: OsResult<()> = match via {
                    0 => raw.put(&path, payload).await.map(|_| ()),
                    1 => cs.put(&path, payload).await.map(|_| ()),
                    3 => match cs.put_multipart(&path).await {
                        Ok(mut up) => match up.put_part(payload).await {
                            Ok(()) => up.complete().await.map(|_| ()),
                            Err(e) => Err(e),
                        },
                        Err(e) => Err(e),
                    },
                    4 => cs.copy(&tmp, &path).await,
                    5 => cs.rename(&tmp, &path).await,
                    6 => cs.copy_if_not_exists(&tmp, &path).await,
                    _ => cs.put_opts(&path, payload, PutOptions { mode: PutMode::Create, ..Default::default() }).await.map(|_| ()),
                };
                let hex = if data.is_empty() { "-".to_string() } else { data.iter().map(|b| format!("{:02x}", b)).collect::<String>() };
                match r {
                    Ok(_) => {
                        put_ok += 1;
                        let m = raw.head(&path).await.map_err(|e| format!("raw head after put: {}", e))?;
                        let etag = m.e_tag.clone().unwrap_or_default();
                        let mtime = m.last_modified.timestamp_nanos_opt().unwrap_or(0);
                        line.push(format!("P {} {} {} {}", k, etag, mtime, hex));
                        metas.insert(*k, Meta { etag, mtime });
                        outs.push("ok".into());
                    }
                    Err(e) => {
                        line.push(format!("P {} 0 0 {}", k, hex));
                        outs.push(err_code(&e));
                    }
                }
            }
            Op::PutRejected { k, len, fill, via } => {
                // oracle only (the model has no refused uploads: the store is unchanged, nothing may be cached)
                let path = Path::from(KEYS[*k % KEYS.len()]);
                if raw.head(&path).await.is_ok() {
                    continue; // write-once: only new keys
                }
                let payload = PutPayload::from(content(*len, *fill));
                fault.reject_next_put.store(true, std::sync::atomic::Ordering::SeqCst);
                let r = if *via == 1 {
                    cs.put(&path, payload).await
                } else {
                    cs.put_opts(&path, payload, PutOptions { mode: PutMode::Create, ..Default::default() }).await
                };
                fault.reject_next_put.store(false, std::sync::atomic::Ordering::SeqCst);
                if r.is_ok() {
                    bad.push(format!("op {}: an upload of {:?} that the inner store refused was reported as successful", i, path.to_string()));
                }
            }
            Op::ReadBroken(k, parts) => {
                // oracle only: either the read fails or it returns exactly the stored bytes
                let res = Resolved { path: Path::from(KEYS[*k % KEYS.len()]), kind: 0, opts: GetOptions::default(), range: (0, 0) };
                *fault.break_after.lock().unwrap() = Some(*parts);
                let got = match tokio::time::timeout(std::time::Duration::from_millis(STEP_TIMEOUT_MS), AssertUnwindSafe(issue(cs.as_ref(), &res)).catch_unwind()).await {
                    Ok(Ok(s)) => s,
                    Ok(Err(_)) => "PANIC".to_string(),
                    Err(_) => "HUNG".to_string(),
                };
                *fault.break_after.lock().unwrap() = None;
                let want = issue(raw.as_ref(), &res).await;
                if got != want && !got.starts_with('E') {
                    bad.push(format!("op {} (X {} {}): whole-object read of {:?} whose body broke after {} KiB returned {} but the backing store holds {}", i, k, parts, res.path.to_string(), parts, got, want));
                }
            }
            Op::Ranges(k, rs) => {
                // oracle only: position by position against the raw store
                let path = Path::from(KEYS[*k % KEYS.len()]);
                let ranges: Vec<std::ops::Range<usize>> = rs.iter().map(|(a, b)| *a..*b).collect();
                let canon = |r: OsResult<Vec<Bytes>>| -> String {
                    match r {
                        Ok(v) => format!("ok:[{}]", v.iter().map(|b| format!("{}:{:016x}", b.len(), fnv(b))).collect::<Vec<_>>().join(",")),
                        Err(e) => err_code(&e),
                    }
                };
                fault.range_latency.store(true, std::sync::atomic::Ordering::SeqCst);
                let got = match tokio::time::timeout(std::time::Duration::from_millis(STEP_TIMEOUT_MS), cs.get_ranges(&path, &ranges)).await {
                    Ok(r) => canon(r),
                    Err(_) => "HUNG".to_string(),
                };
                fault.range_latency.store(false, std::sync::atomic::Ordering::SeqCst);
                let want = canon(raw.get_ranges(&path, &ranges).await);
                if !acceptable(&got, &want) && !(want.starts_with('E') && got.starts_with('E')) {
                    bad.push(format!("op {} (get_ranges {:?}): ranged reads of {:?} through the cache returned {} but the backing store answers {} (position by position)", i, rs, path.to_string(), got, want));
                }
            }
            Op::Evict(k) => {
                cache.invalidate(KEYS[*k % KEYS.len()]).await;
                line.push(format!("E {}", k));
                outs.push("-".into());
            }
            Op::Read(q) => {
                let (res, qs) = resolve(q, &metas);
                let present = raw.head(&res.path).await.is_ok();
                let before = cache.stats();
                let cs2 = cs.clone();
                let res2 = res.clone();
                let mut handle = tokio::spawn(async move {
                    match AssertUnwindSafe(issue(cs2.as_ref(), &res2)).catch_unwind().await {
                        Ok(s) => s,
                        Err(_) => "PANIC".to_string(),
                    }
                });
                match tokio::time::timeout(std::time::Duration::from_millis(BLOCK_MS), &mut handle).await {
                    Ok(joined) => {
                        let got = joined.unwrap_or_else(|_| "PANIC".into());
                        let tier = tier_of(&before, &cache.stats(), q.cached_path());
                        let want = issue(raw.as_ref(), &res).await;
                        if want == "E1" && got.starts_with("ok") {
                            bad.push(format!("op {} ({}): read of an object the backing store does not have ({:?}) returned {}", i, qs, KEYS[q.key() % KEYS.len()], got));
                        } else if !acceptable(&got, &want) {
                            bad.push(format!("op {} ({}): read of {:?} through the cache returned {} but the backing store answers {}", i, qs, KEYS[q.key() % KEYS.len()], got, want));
                        }
                        arrivals += 1;
                        obs_all.push(tier);
                        results.push(got.clone());
                        line.push(format!("R {} {}", qs, tier));
                        outs.push(format!("{}@{}", got, tier));
                    }
                    Err(_) => {
                        // waits for something (another reader holding the key?): becomes a blocked reader
                        synthetic_label += 1;
                        index_of.insert(synthetic_label, arrivals);
                        blocked.push(Blocked { index: arrivals, label: synthetic_label, cid: 0, resolved: res, present_at_arrival: present, handle });
                        arrivals += 1;
                        obs_all.push('W');
                        line.push(format!("S {} W", qs));
                        outs.push("blocked".into());
                    }
                }
            }
            Op::Start(label, q) => {
                let (res, qs) = resolve(q, &metas);
                let cid = next_cid;
                next_cid += 1;
                let present = raw.head(&res.path).await.is_ok();
                let before = cache.stats();
                let cs2 = cs.clone();
                let hub2 = hub.clone();
                let res2 = res.clone();
                let handle = tokio::spawn(READER.scope(cid, async move {
                    let out = match AssertUnwindSafe(issue(cs2.as_ref(), &res2)).catch_unwind().await {
                        Ok(s) => s,
                        Err(_) => "PANIC".to_string(),
                    };
                    hub2.note(cid, "done".into());
                    out
                }));
                let arrived = tokio::time::timeout(std::time::Duration::from_millis(BLOCK_MS), ctl.wait_for(cid)).await;
                index_of.insert(*label, arrivals);
                let index = arrivals;
                arrivals += 1;
                match arrived {
                    Err(_) => {
                        obs_all.push('W');
                        line.push(format!("S {} W", qs));
                        outs.push("blocked".into());
                        blocked.push(Blocked { index, label: *label, cid, resolved: res, present_at_arrival: present, handle });
                    }
                    Ok(at_store) => {
                        let tier = tier_of(&before, &cache.stats(), q.cached_path());
                        obs_all.push(tier);
                        line.push(format!("S {} {}", qs, tier));
                        if at_store.is_some() {
                            if parked.iter().any(|p| p.resolved.path == res.path) {
                                same_key_parked += 1;
                            }
                            parked.push(Parked { label: *label, cid, resolved: res, present_at_arrival: present, handle });
                            parked_max = parked_max.max(parked.len());
                            outs.push(format!("parked@{}", tier));
                        } else {
                            let _ = ctl.take_note(cid);
                            let got = handle.await.unwrap_or_else(|_| "PANIC".into());
                            let want = issue(raw.as_ref(), &res).await;
                            check_concurrent(&mut bad, &format!("op {} ({})", i, qs), &res.path, &got, &want, present);
                            results.push(got.clone());
                            outs.push(format!("{}@{}", got, tier));
                        }
                    }
                }
            }
            Op::Go(label) => {
                if let Some(pos) = parked.iter().position(|p| p.label == *label) {
                    release!(pos, &format!("op {} (W {})", i, label));
                }
            }
        }
        if !blocked.is_empty() {
            poll_blocked!();
        }
        if blocked.len() >= 6 {
            break; // enough readers are stuck behind others: release everybody and see who comes through
        }
    }
    // drain: every reader still parked is released, every blocked reader gets DRAIN_MS to come through
    let deadline = std::time::Instant::now() + std::time::Duration::from_millis(DRAIN_MS);
    while !(parked.is_empty() && blocked.is_empty()) {
        while !parked.is_empty() {
            release!(0, "end of the history");
        }
        if blocked.is_empty() {
            break;
        }
        poll_blocked!();
        if std::time::Instant::now() > deadline {
            break;
        }
        if !blocked.is_empty() && parked.is_empty() {
            tokio::time::sleep(std::time::Duration::from_millis(10)).await;
        }
    }
    for b in blocked.drain(..) {
        b.handle.abort();
        let want = issue(raw.as_ref(), &b.resolved).await;
        bad.push(format!(
            "reader {}: read of {:?} did not complete (still waiting {} ms after every other reader was released) although the backing store answers {}",
            b.index, b.resolved.path.to_string(), DRAIN_MS, want
        ));
        results.push("HUNG".into());
        line.push(format!("F {}", b.index));
        outs.push("HUNG".into());
    }
    hub.detach();
    ctl.release_all();
    drop(cs);
    let _ = tokio::time::timeout(std::time::Duration::from_millis(3_000), cache.clear()).await;
    Ok(Run { model_line: line.join(";"), impl_out: outs.join(";"), bad, obs: obs_all, results, put_ok, parked_max, same_key_parked, appeared_in_flight })
}

// ------------------------------------------------------------ generator ----
fn gen_len(rng: &mut Rng) -> usize {
    *rng.pick(&[0usize, 1, 2, 5, 63, 64, 65, 100, 300, 1000, 3000, 5000])
}

fn gen_req(rng: &mut Rng, keys: &[usize], lens: &BTreeMap<usize, usize>) -> Req {
    let k = *rng.pick(keys);
    let len = lens.get(&k).copied().unwrap_or(10);
    let pos = |rng: &mut Rng| -> usize {
        match rng.below(6) {
            0 => 0,
            1 => len,
            2 => len.saturating_sub(1),
            3 => len + 1 + rng.below(5) as usize,
            _ => rng.below(len as u64 + 1) as usize,
        }
    };
    let r = rng.below(100);
    if r < 45 {
        Req::Get(k)
    } else if r < 52 {
        Req::Opts { k, range: None, im: Cond::None, inm: Cond::None, md: Date::None, um: Date::None, version: false, head: false }
    } else if r < 62 {
        let (a, b) = (pos(rng), pos(rng));
        Req::Range(k, a, b)
    } else if r < 72 {
        let range = Some(match rng.below(3) {
            0 => RangeSpec::B(pos(rng), pos(rng)),
            1 => RangeSpec::O(pos(rng)),
            _ => RangeSpec::S(pos(rng)),
        });
        Req::Opts { k, range, im: Cond::None, inm: Cond::None, md: Date::None, um: Date::None, version: false, head: false }
    } else if r < 92 {
        // conditional reads: ETag and date conditions, alone and combined (if_match has priority over the date)
        let tagset = |rng: &mut Rng| -> Cond {
            match rng.below(6) {
                0 => Cond::Star,
                1 => Cond::Tags(vec![]),
                2 => Cond::Tags(vec![Tag::Of(k)]),
                3 => Cond::Tags(vec![Tag::Bogus]),
                4 => Cond::Tags(vec![Tag::Bogus, Tag::Of(k)]),
                _ => Cond::Tags(vec![Tag::Of(*rng.pick(keys))]),
            }
        };
        let date = |rng: &mut Rng| -> Date {
            match rng.below(6) {
                0 => Date::Abs(0),
                1 => Date::Rel(k, 0),
                2 => Date::Rel(k, -1),
                3 => Date::Rel(k, 1),
                4 => Date::Rel(k, 3_600_000_000_000),
                _ => Date::Rel(k, -3_600_000_000_000),
            }
        };
        let mut q = (Cond::None, Cond::None, Date::None, Date::None);
        match rng.below(7) {
            0 => q.0 = tagset(rng),
            1 => q.1 = tagset(rng),
            2 => q.2 = date(rng),
            3 => q.3 = date(rng),
            4 => {
                q.0 = tagset(rng);
                q.3 = date(rng);
            }
            5 => {
                q.1 = tagset(rng);
                q.2 = date(rng);
            }
            _ => {
                q.2 = date(rng);
                q.3 = date(rng);
            }
        }
        let range = if rng.chance(1, 5) { Some(RangeSpec::B(pos(rng), pos(rng))) } else { None };
        Req::Opts { k, range, im: q.0, inm: q.1, md: q.2, um: q.3, version: false, head: false }
    } else if r < 96 {
        Req::Head(k)
    } else if r < 98 {
        Req::Opts { k, range: None, im: Cond::None, inm: Cond::None, md: Date::None, um: Date::None, version: false, head: true }
    } else {
        Req::Opts { k, range: None, im: Cond::None, inm: Cond::None, md: Date::None, um: Date::None, version: true, head: false }
    }
}

fn gen_config(rng: &mut Rng) -> Config {
    let l1 = *rng.pick(&[0usize, 1, 64, 1 << 20]);
    if rng.chance(1, 2) {
        Config { l1, l2: 0, dir: false }
    } else {
        Config { l1, l2: *rng.pick(&[4096usize, 1 << 20, 64 << 20]), dir: true }
    }
}

fn gen_case(rng: &mut Rng, report: &mut Report) -> (Config, Vec<Op>) {
    let cfg = gen_config(rng);
    // a small set of related keys
    let base = rng.below(KEYS.len() as u64) as usize;
    let nkeys = rng.range_usize(2, 6);
    let mut keys: Vec<usize> = (0..nkeys).map(|j| if rng.chance(2, 3) { (base + j) % KEYS.len() } else { rng.below(KEYS.len() as u64) as usize }).collect();
    keys.sort();
    keys.dedup();
    let mut ops = Vec::new();
    let mut lens: BTreeMap<usize, usize> = BTreeMap::new();
    let mut fill = rng.below(1000) as u32;
    let mut label = 0u32;
    let mut waiting: Vec<u32> = Vec::new();
    let nops = rng.range_usize(6, 30);
    let burst_at = if cfg.l1 < (1 << 20) && rng.chance(1, 2) { Some(rng.range_usize(2, nops)) } else { None };
    for i in 0..nops {
        if Some(i) == burst_at && !lens.is_empty() {
            // enough cache operations for moka to run its maintenance (evicts what exceeds the tiny L1)
            let present: Vec<usize> = lens.keys().copied().collect();
            let n = rng.range_usize(70, 90);
            for j in 0..n {
                ops.push(Op::Read(Req::Get(present[j % present.len().min(3)])));
            }
            report.bump("gen.burst");
        }
        let r = rng.below(100);
        if r < 18 || (lens.is_empty() && r < 50) {
            let k = *rng.pick(&keys);
            let len = gen_len(rng);
            fill += 1;
            let via = rng.below(7) as u8;
            if lens.contains_key(&k) {
                report.bump("op.put_existing");
            } else {
                lens.insert(k, len);
                // probe the key while it does not exist yet (sequentially and/or by a reader that stays in flight)
                if rng.chance(1, 2) {
                    ops.push(Op::Read(if rng.chance(3, 4) { Req::Get(k) } else { gen_req(rng, &[k], &lens) }));
                    report.bump("gen.probe_before_create");
                }
                if rng.chance(1, 5) {
                    label += 1;
                    waiting.push(label);
                    ops.push(Op::Start(label, Req::Get(k)));
                    report.bump("gen.reader_in_flight_before_create");
                }
                report.bump(&format!("create.via_{}", ["raw_store", "put", "put_opts", "put_multipart", "copy", "rename", "copy_if_not_exists"][via as usize]));
            }
            ops.push(Op::Put { k, len, fill, via });
            report.bump("op.put");
        } else if r < 22 {
            ops.push(Op::Evict(*rng.pick(&keys)));
            report.bump("op.invalidate");
        } else if r < 27 {
            match rng.below(3) {
                0 => {
                    // an upload of a key that does not exist yet, refused by the inner store, then read
                    let absent: Vec<usize> = keys.iter().copied().filter(|k| !lens.contains_key(k)).collect();
                    if let Some(k) = absent.first().copied() {
                        fill += 1;
                        ops.push(Op::PutRejected { k, len: gen_len(rng).max(1), fill, via: 1 + rng.below(2) as u8 });
                        ops.push(Op::Read(Req::Get(k)));
                        if rng.chance(1, 2) {
                            ops.push(Op::Read(Req::Get(k)));
                        }
                        report.bump("fault.upload_refused_then_read");
                    }
                }
                1 => {
                    // a body that breaks midway (objects of several KiB), then reads that may hit the cache
                    let big: Vec<usize> = lens.iter().filter(|(_, l)| **l >= 1000).map(|(k, _)| *k).collect();
                    if let Some(k) = big.first().copied() {
                        let nparts = (lens[&k] + 1023) / 1024;
                        ops.push(Op::Evict(k));
                        ops.push(Op::ReadBroken(k, rng.below(nparts as u64 + 1) as usize));
                        ops.push(Op::Read(Req::Get(k)));
                        ops.push(Op::Read(Req::Get(k)));
                        report.bump("fault.body_breaks_midway");
                    }
                }
                _ => {
                    // get_ranges: a large range first, small ones after it (size-dependent latency)
                    let present: Vec<(usize, usize)> = lens.iter().map(|(k, l)| (*k, *l)).filter(|(_, l)| *l >= 64).collect();
                    if !present.is_empty() {
                        let (k, len) = present[rng.below(present.len() as u64) as usize];
                        let mut rs = vec![(0usize, len - rng.below(8) as usize)];
                        for _ in 0..rng.range_usize(1, 4) {
                            let a = rng.below(len as u64 - 8) as usize;
                            rs.push((a, a + 1 + rng.below(7) as usize));
                        }
                        if rng.chance(1, 3) {
                            rs.swap(0, 1);
                        }
                        ops.push(Op::Ranges(k, rs));
                        report.bump("op.get_ranges");
                    }
                }
            }
        } else if r < 70 {
            ops.push(Op::Read(gen_req(rng, &keys, &lens)));
            report.bump("op.read");
        } else if r < 88 {
            // a concurrent reader arrives; bias towards a key another parked reader is already after
            let mut q = gen_req(rng, &keys, &lens);
            if rng.chance(1, 2) {
                if let Some(Op::Start(_, prev)) = ops.iter().rev().find(|o| matches!(o, Op::Start(..))) {
                    q = if rng.chance(2, 3) { Req::Get(prev.key()) } else { q };
                }
            }
            label += 1;
            waiting.push(label);
            ops.push(Op::Start(label, q));
            report.bump("op.start");
        } else if !waiting.is_empty() {
            let idx = rng.below(waiting.len() as u64) as usize;
            ops.push(Op::Go(waiting.remove(idx)));
            report.bump("op.go");
        } else {
            ops.push(Op::Read(gen_req(rng, &keys, &lens)));
            report.bump("op.read");
        }
    }
    // release the rest in random order, then observe every key once more
    while !waiting.is_empty() {
        let idx = rng.below(waiting.len() as u64) as usize;
        ops.push(Op::Go(waiting.remove(idx)));
    }
    for k in &keys {
        ops.push(Op::Read(Req::Get(*k)));
    }
    (cfg, ops)
}

/// Proof-derived corner cases that always run first.
fn corpus() -> Vec<(Config, Vec<Op>)> {
    let g = |k| Op::Read(Req::Get(k));
    let put = |k, len, fill| Op::Put { k, len, fill, via: 2 };
    let putv = |k, len, fill, via| Op::Put { k, len, fill, via };
    let plain = |k| Req::Opts { k, range: None, im: Cond::None, inm: Cond::None, md: Date::None, um: Date::None, version: false, head: false };
    let um = |k, d| Req::Opts { k, range: None, im: Cond::None, inm: Cond::None, md: Date::None, um: d, version: false, head: false };
    let md = |k, d| Req::Opts { k, range: None, im: Cond::None, inm: Cond::None, md: d, um: Date::None, version: false, head: false };
    let ample = Config { l1: 1 << 20, l2: 0, dir: false };
    let ample2 = Config { l1: 1 << 20, l2: 1 << 20, dir: true };
    let tiny2 = Config { l1: 1, l2: 64 << 20, dir: true };
    let mut v = vec![
        // date conditions on a cached object (answered from the cache, ignoring the condition, before fix 595f54b)
        (ample.clone(), vec![put(1, 100, 1), g(1), g(1), Op::Read(um(1, Date::Abs(0))), Op::Read(md(1, Date::Rel(1, 3_600_000_000_000))), Op::Read(um(1, Date::Rel(1, 0))), Op::Read(md(1, Date::Rel(1, -1))),
            Op::Read(Req::Opts { k: 1, range: None, im: Cond::None, inm: Cond::None, md: Date::None, um: Date::None, version: false, head: true }),
            Op::Read(Req::Opts { k: 1, range: None, im: Cond::None, inm: Cond::None, md: Date::None, um: Date::None, version: true, head: false })]),
        // keys that are prefixes of each other / same file name in two directories / case / one character
        (ample2.clone(), vec![put(1, 10, 1), put(2, 20, 2), put(3, 30, 3), put(4, 40, 4), put(9, 50, 5), put(10, 60, 6), put(11, 70, 7),
            g(1), g(2), g(3), g(4), g(0), g(6), g(9), g(10), g(11), g(12), g(1), g(2), g(3), g(4), g(9), g(10), g(11), g(7), g(8)]),
        // absent key: fails, caches nothing; created later: served; another absent key still fails
        (ample2.clone(), vec![g(1), g(1), put(1, 64, 9), g(1), g(1), g(2), Op::Read(Req::Range(2, 0, 5)), Op::Read(Req::Head(2)), Op::Read(plain(2)), Op::Read(plain(1))]),
        // two readers miss on one absent key, the object appears between their fetches
        (ample.clone(), vec![Op::Start(1, Req::Get(5)), Op::Start(2, Req::Get(5)), Op::Go(1), put(5, 33, 4), Op::Go(2), g(5), Op::Start(3, Req::Get(6)), put(6, 1, 5), Op::Go(3), g(6)]),
        // readers of the same and of different keys released in reverse order, invalidation in between
        (ample2.clone(), vec![put(1, 100, 1), put(2, 200, 2), Op::Start(1, Req::Get(1)), Op::Start(2, Req::Get(2)), Op::Start(3, Req::Get(1)), Op::Start(4, Req::Range(1, 5, 50)),
            Op::Go(3), Op::Evict(1), Op::Go(2), Op::Go(1), Op::Go(4), g(1), g(2), Op::Start(5, Req::Get(1)), Op::Start(6, um(1, Date::Abs(0)))]),
        // ranges: end points, beyond the end, empty, inverted, empty object
        (ample.clone(), vec![put(1, 10, 1), put(2, 0, 2), g(1), g(2), g(2), Op::Read(Req::Range(1, 0, 10)), Op::Read(Req::Range(1, 0, 11)), Op::Read(Req::Range(1, 9, 10)), Op::Read(Req::Range(1, 10, 12)),
            Op::Read(Req::Range(1, 3, 3)), Op::Read(Req::Range(1, 5, 2)), Op::Read(Req::Range(2, 0, 1)),
            Op::Read(Req::Opts { k: 1, range: Some(RangeSpec::S(3)), im: Cond::None, inm: Cond::None, md: Date::None, um: Date::None, version: false, head: false }),
            Op::Read(Req::Opts { k: 1, range: Some(RangeSpec::S(30)), im: Cond::None, inm: Cond::None, md: Date::None, um: Date::None, version: false, head: false }),
            Op::Read(Req::Opts { k: 2, range: Some(RangeSpec::S(3)), im: Cond::None, inm: Cond::None, md: Date::None, um: Date::None, version: false, head: false }),
            Op::Read(Req::Opts { k: 1, range: Some(RangeSpec::O(10)), im: Cond::None, inm: Cond::None, md: Date::None, um: Date::None, version: false, head: false }),
            Op::Read(Req::Opts { k: 1, range: Some(RangeSpec::O(4)), im: Cond::None, inm: Cond::None, md: Date::None, um: Date::None, version: false, head: false })]),
        // ETag conditions
        (ample.clone(), vec![put(1, 10, 1), put(2, 10, 2), g(1),
            Op::Read(Req::Opts { k: 1, range: None, im: Cond::Tags(vec![Tag::Of(1)]), inm: Cond::None, md: Date::None, um: Date::None, version: false, head: false }),
            Op::Read(Req::Opts { k: 1, range: None, im: Cond::Tags(vec![Tag::Of(2)]), inm: Cond::None, md: Date::None, um: Date::None, version: false, head: false }),
            Op::Read(Req::Opts { k: 1, range: None, im: Cond::Tags(vec![Tag::Bogus, Tag::Of(1)]), inm: Cond::None, md: Date::None, um: Date::Abs(0), version: false, head: false }),
            Op::Read(Req::Opts { k: 1, range: None, im: Cond::Star, inm: Cond::Star, md: Date::None, um: Date::None, version: false, head: false }),
            Op::Read(Req::Opts { k: 1, range: None, im: Cond::None, inm: Cond::Tags(vec![Tag::Of(1)]), md: Date::None, um: Date::None, version: false, head: false }),
            Op::Read(Req::Opts { k: 1, range: None, im: Cond::None, inm: Cond::Tags(vec![]), md: Date::Rel(1, 1), um: Date::None, version: false, head: false }),
            Op::Read(Req::Opts { k: 3, range: None, im: Cond::Star, inm: Cond::None, md: Date::None, um: Date::None, version: false, head: false })]),
    ];
    // refused uploads of new keys, bodies breaking midway, get_ranges with a large range first (oracle only)
    for c in [ample.clone(), ample2.clone(), Config { l1: 0, l2: 1 << 20, dir: true }] {
        v.push((c, vec![
            Op::PutRejected { k: 1, len: 50, fill: 1, via: 1 }, g(1), g(1), Op::PutRejected { k: 2, len: 60, fill: 2, via: 2 }, g(2), Op::Read(plain(2)),
            put(1, 70, 3), g(1), g(2),
            put(3, 5000, 4), Op::ReadBroken(3, 2), g(3), g(3), Op::Evict(3), Op::ReadBroken(3, 0), g(3), Op::Evict(3), Op::ReadBroken(3, 4), g(3), Op::ReadBroken(3, 5), g(3),
            Op::Ranges(3, vec![(0, 4990), (10, 12), (4000, 4003), (100, 101)]), Op::Ranges(3, vec![(5, 6), (0, 5000), (7, 9)]), Op::Ranges(4, vec![(0, 10), (2, 3)]),
        ]));
    }
    // creation by every path, each probed while the key does not exist yet and read right after
    // (a NotFound remembered by the wrapper must not outlive the creation, whoever creates the object)
    let mut ops = Vec::new();
    for via in 0u8..7 {
        let k = 1 + via as usize;
        ops.push(g(k));
        ops.push(Op::Read(plain(k)));
        ops.push(putv(k, 40 + via as usize, 20 + via as u32, via));
        ops.push(g(k));
        ops.push(g(k));
    }
    v.push((ample.clone(), ops.clone()));
    v.push((ample2.clone(), ops));
    // a reader of the absent key is in flight while the object is created through the raw store
    v.push((ample.clone(), vec![g(3), Op::Start(1, Req::Get(3)), putv(3, 10, 3, 0), Op::Go(1), g(3), Op::Start(2, Req::Get(4)), Op::Start(3, Req::Get(4)), putv(4, 11, 4, 5), Op::Go(3), Op::Go(2), g(4)]));
    // several readers of one key with a RAM tier that keeps nothing (size 0) / is smaller than the object:
    // whoever waits for another reader's load must still get the bytes
    for (l1, dir) in [(0usize, false), (0, true), (64, false), (1, true)] {
        v.push((Config { l1, l2: if dir { 1 << 20 } else { 0 }, dir }, vec![put(1, 300, 1), put(2, 100, 2),
            Op::Start(1, Req::Get(1)), Op::Start(2, Req::Get(1)), Op::Start(3, Req::Get(1)), Op::Start(4, Req::Get(2)), Op::Read(Req::Get(1)),
            Op::Go(1), Op::Go(3), Op::Go(2), Op::Go(4), g(1), g(2),
            Op::Start(5, Req::Get(5)), Op::Start(6, Req::Get(5)), Op::Go(5), putv(5, 10, 5, 0), Op::Go(6), g(5)]));
    }
    // tiny L1 over a disk tier: enough reads for moka to evict, then L2 hits with promotion; rejected re-PUT in between
    let mut ops = vec![put(1, 100, 1), put(2, 300, 2), put(3, 65, 3)];
    for j in 0..150 {
        ops.push(g(1 + j % 3));
        if j == 75 {
            ops.push(put(2, 5, 9));
        }
    }
    v.push((tiny2, ops));
    // tiny L1, no L2: eviction forces a second fetch
    let mut ops = vec![put(1, 100, 1), put(2, 300, 2)];
    for j in 0..140 {
        ops.push(g(1 + j % 2));
    }
    v.push((Config { l1: 64, l2: 0, dir: false }, ops));
    v
}

fn nontrivial(run: &Run) -> bool {
    run.put_ok > 0 && run.results.iter().zip(run.obs.iter()).any(|(r, o)| r.starts_with("ok") && *o != 'B')
}

// ------------------------------------------------------------- watchdogs ----
static HEARTBEAT: std::sync::atomic::AtomicU64 = std::sync::atomic::AtomicU64::new(0);
static CURRENT: std::sync::Mutex<String> = std::sync::Mutex::new(String::new());
const CASE_TIMEOUT_S: u64 = 30;
const SYNC_HANG_S: u64 = 90;

fn now_s() -> u64 {
    std::time::SystemTime::now().duration_since(std::time::UNIX_EPOCH).map(|d| d.as_secs()).unwrap_or(0)
}

/// Runs one case under a wall-clock limit (readers that wait for ever are dealt
/// with inside run_case; this catches whatever else does not come back).
fn run_guarded(rt: &tokio::runtime::Runtime, cfg: &Config, ops: &[Op]) -> Result<Run, String> {
    HEARTBEAT.store(now_s(), std::sync::atomic::Ordering::Relaxed);
    *CURRENT.lock().unwrap() = json!({"cfg": enc_cfg(cfg), "ops": encode(ops)}).to_string();
    rt.block_on(async {
        match tokio::time::timeout(std::time::Duration::from_secs(CASE_TIMEOUT_S), run_case(cfg, ops)).await {
            Ok(r) => r,
            Err(_) => Err(format!("the history did not complete within {} s", CASE_TIMEOUT_S)),
        }
    })
}

/// A thread outside the runtime: if a case blocks the runtime thread itself
/// (no await ever returns), record it as a finding in the report file and exit.
fn spawn_sync_hang_watchdog(out: String) {
    std::thread::spawn(move || loop {
        std::thread::sleep(std::time::Duration::from_secs(2));
        let hb = HEARTBEAT.load(std::sync::atomic::Ordering::Relaxed);
        if hb != 0 && now_s().saturating_sub(hb) > SYNC_HANG_S {
            let case: serde_json::Value = serde_json::from_str(&CURRENT.lock().map(|c| c.clone()).unwrap_or_default()).unwrap_or(json!({}));
            let mut rep: serde_json::Value = std::fs::read_to_string(&out)
                .ok()
                .and_then(|t| serde_json::from_str(&t).ok())
                .unwrap_or(json!({"property": "C16", "evaluations": 0, "impl_runs": 0, "distinct_nontrivial": 0, "histogram": {}, "samples": [],
                                  "disagreements": [], "oracle_violations": [], "notes": [], "exhaustive": false}));
            let v = json!({"class": "", "what": format!("the implementation did not return from a history within {} s (runtime thread blocked): reads through the cache do not complete", SYNC_HANG_S), "case": case});
            if let Some(a) = rep["oracle_violations"].as_array_mut() {
                a.push(v);
            }
            if let Some(a) = rep["notes"].as_array_mut() {
                a.push(json!("run aborted by the synchronous-hang watchdog"));
            }
            if !out.is_empty() {
                let _ = std::fs::write(&out, serde_json::to_string_pretty(&rep).unwrap_or_default());
            }
            std::process::exit(0);
        }
    });
}

fn main() {
    let args = Args::parse();
    if std::env::var("CSV_LOUD").is_err() {
        csv_common::quiet_panics();
    }
    let rt = tokio::runtime::Builder::new_current_thread().enable_all().build().unwrap();
    let mut model = Model::spawn(&args.model);
    let mut report = Report::new("C16");

    if let Some(path) = &args.replay {
        let txt = std::fs::read_to_string(path).expect("replay file");
        let v: serde_json::Value = serde_json::from_str(&txt).expect("replay json");
        let v = if v.get("cfg").is_some() { v.clone() } else { v["case"].clone() };
        let cfg = dec_cfg(v["cfg"].as_str().unwrap_or("1048576,0,0"));
        let ops = decode(v["ops"].as_str().unwrap_or(""));
        let run = match run_guarded(&rt, &cfg, &ops) {
            Ok(r) => r,
            Err(e) => {
                println!("cfg  : {}\nops  : {}\nFAILED: {}", enc_cfg(&cfg), encode(&ops), e);
                std::process::exit(1);
            }
        };
        let model_out = model.ask(&run.model_line);
        println!("cfg  : {}\nops  : {}\nline : {}\nimpl : {}\nmodel: {}\noracle failures: {:?}", enc_cfg(&cfg), encode(&ops), run.model_line, run.impl_out, model_out, run.bad);
        std::process::exit(if run.bad.is_empty() && (model.is_null() || run.impl_out == model_out) { 0 } else { 1 });
    }

    let n_random = if args.thorough() { 10_000 } else { 500 };
    let mut rng = Rng::new(args.seed);
    let mut cases: Vec<(String, Config, Vec<Op>)> = corpus().into_iter().map(|(c, o)| ("corpus".to_string(), c, o)).collect();
    // minimised past failures kept under corpus/C16 (cwd = /verif)
    if let Ok(rd) = std::fs::read_dir("corpus/C16") {
        let mut files: Vec<_> = rd.filter_map(|e| e.ok()).map(|e| e.path()).filter(|p| p.extension().map(|x| x == "json").unwrap_or(false)).collect();
        files.sort();
        for f in files {
            if let Ok(v) = std::fs::read_to_string(&f).map_err(|_| ()).and_then(|t| serde_json::from_str::<serde_json::Value>(&t).map_err(|_| ())) {
                if let (Some(c), Some(o)) = (v["cfg"].as_str(), v["ops"].as_str()) {
                    cases.push(("corpus-file".to_string(), dec_cfg(c), decode(o)));
                }
            }
        }
    }
    for _ in 0..n_random {
        let mut r = rng.fork();
        let (c, o) = gen_case(&mut r, &mut report);
        cases.push(("random".to_string(), c, o));
    }

    const MAX_FINDINGS: usize = 10;
    const SHRINK_S: u64 = 40;
    let t_start = std::time::Instant::now();
    let budget_s: u64 = if args.thorough() { 1000 } else { 360 };
    spawn_sync_hang_watchdog(args.out.clone());
    let mut failed_cases = 0usize;
    let mut shrunk_disagreements = 0usize;
    let mut shrunk_violations = 0usize;
    for (origin, cfg, ops) in cases {
        let ops = normalize(&ops);
        let text = format!("{}|{}", enc_cfg(&cfg), encode(&ops));
        let run = match run_guarded(&rt, &cfg, &ops) {
            Ok(r) => r,
            Err(e) => {
                report.notes.push(format!("case could not run: {}", e));
                report.oracle_violation("", &format!("reads through the cache did not complete / the history could not be run: {}", e), json!({"cfg": enc_cfg(&cfg), "ops": encode(&ops)}));
                failed_cases += 1;
                report.write(&args.out);
                if failed_cases >= MAX_FINDINGS {
                    report.notes.push(format!("stopped after {} failing cases ({} cases run)", failed_cases, report.impl_runs));
                    break;
                }
                continue;
            }
        };
        report.impl_runs += 1;
        report.case(if nontrivial(&run) { Some(&text) } else { None });
        report.bump(&format!("origin.{}", origin));
        report.bump(&format!("cfg.l1={}.l2={}", match cfg.l1 { 0 => "zero", 1 => "tiny", 64 => "small", _ => "ample" }, if cfg.dir { match cfg.l2 { 4096 => "disk-tiny", _ => "disk" } } else { "none" }));
        for o in &run.obs {
            report.bump(&format!("served.{}", match o { '1' => "L1", '2' => "L2", 'M' => "miss-fetch", 'B' => "bypass", 'W' => "blocked-behind-another-reader", _ => "unknown" }));
        }
        for r in &run.results {
            let kind = if r.starts_with("ok") { "ok".to_string() } else { r.split('(').next().unwrap_or("E").to_string() };
            report.bump(&format!("result.{}", kind));
        }
        if run.parked_max >= 2 {
            report.bump("concurrent.two_or_more_parked");
        }
        report.bump_by("concurrent.parked_behind_reader_of_same_key", run.same_key_parked as u64);
        report.bump_by("concurrent.object_created_while_reader_in_flight", run.appeared_in_flight as u64);
        let (differs, model_out) = model.differs(&run.model_line, &run.impl_out);
        report.sample(json!({"cfg": enc_cfg(&cfg), "ops": encode(&ops).chars().take(400).collect::<String>(),
                             "impl": run.impl_out.chars().take(400).collect::<String>(), "model": model_out.chars().take(400).collect::<String>()}));
        if differs || !run.bad.is_empty() {
            failed_cases += 1;
        }
        if differs {
            // shrink (bounded effort, first few failures only): keep the disagreement
            let shrunk = if shrunk_disagreements < 3 {
                shrunk_disagreements += 1;
                let mut budget = 150;
                let t_shrink = std::time::Instant::now();
                ddmin(&ops, &mut |cand: &[Op]| {
                    if budget == 0 || t_shrink.elapsed().as_secs() > SHRINK_S {
                        return false;
                    }
                    budget -= 1;
                    match run_guarded(&rt, &cfg, cand) {
                        Ok(r) => model.differs(&r.model_line, &r.impl_out).0,
                        Err(_) => false,
                    }
                })
            } else {
                ops.clone()
            };
            let sr = run_guarded(&rt, &cfg, &shrunk).ok();
            let (sl, si, sbad) = sr.map(|r| (r.model_line, r.impl_out, r.bad)).unwrap_or_default();
            let sm = model.ask(&sl);
            report.disagreement(json!({
                "correspondence": "cache model (Model/Cache.v) vs CachedObjectStore/TieredCache",
                "case": {"cfg": enc_cfg(&cfg), "ops": encode(&ops)}, "impl": run.impl_out, "model": model_out,
                "shrunk": {"cfg": enc_cfg(&cfg), "ops": encode(&shrunk)}, "shrunk_line": sl, "shrunk_impl": si, "shrunk_model": sm,
                "oracle_failed": !sbad.is_empty() || !run.bad.is_empty(),
            }));
        }
        if !run.bad.is_empty() {
            let shrunk = if shrunk_violations < 3 {
                shrunk_violations += 1;
                let mut budget = 150;
                let t_shrink = std::time::Instant::now();
                ddmin(&ops, &mut |cand: &[Op]| {
                    if budget == 0 || t_shrink.elapsed().as_secs() > SHRINK_S {
                        return false;
                    }
                    budget -= 1;
                    match run_guarded(&rt, &cfg, cand) {
                        Ok(r) => !r.bad.is_empty(),
                        Err(_) => false,
                    }
                })
            } else {
                ops.clone()
            };
            let sbad = run_guarded(&rt, &cfg, &shrunk).map(|r| r.bad).unwrap_or_default();
            let (what, shrunk) = if sbad.is_empty() { (run.bad.join("; "), ops.clone()) } else { (sbad.join("; "), shrunk) };
            report.oracle_violation("", &what, json!({"cfg": enc_cfg(&cfg), "ops": encode(&shrunk), "original": encode(&ops)}));
        }
        if differs || !run.bad.is_empty() || (report.impl_runs % 100 == 0 && !args.out.is_empty()) {
            report.write(&args.out); // incremental: a later hang still leaves the findings so far
        }
        if failed_cases >= MAX_FINDINGS {
            report.notes.push(format!("stopped after {} failing cases ({} cases run)", failed_cases, report.impl_runs));
            break;
        }
        if t_start.elapsed().as_secs() > budget_s {
            report.notes.push(format!("time budget of {} s used up after {} cases", budget_s, report.impl_runs));
            break;
        }
    }
    report.notes.push(format!("model calls: {}", model.calls));
    report.write(&args.out);
}

#[allow(dead_code)]
fn _unused(_: Bytes) {}
