use cardinalsin::query::{CacheConfig, CachedObjectStore, TieredCache};
use object_store::memory::InMemory;
use object_store::path::Path;
use object_store::{GetOptions, ObjectStore, PutPayload};
use std::sync::Arc;
use std::time::Instant;

fn main() {
    let rt = tokio::runtime::Builder::new_current_thread().enable_all().build().unwrap();
    rt.block_on(async {
        for (l1, l2, dir) in [(1usize, 0usize, false), (1 << 20, 0, false), (1, 1 << 20, true), (1 << 20, 16 << 20, true), (10, 4096, true)] {
            let t0 = Instant::now();
            let td = tempfile::tempdir().unwrap();
            let cfg = CacheConfig { l1_size: l1, l2_size: l2, l2_dir: if dir { Some(td.path().to_str().unwrap().to_string()) } else { None } };
            let cache = match TieredCache::new(cfg).await { Ok(c) => Arc::new(c), Err(e) => { println!("cfg {} {} {}: ERR {}", l1, l2, dir, e); continue; } };
            let t1 = t0.elapsed();
            let inner: Arc<dyn ObjectStore> = Arc::new(InMemory::new());
            let cs = CachedObjectStore::new(inner.clone(), cache.clone());
            let p = Path::from("a/b");
            inner.put(&p, PutPayload::from_static(b"hello world")).await.unwrap();
            let r1 = cs.get(&p).await.unwrap().bytes().await.unwrap();
            let r2 = cs.get(&p).await.unwrap().bytes().await.unwrap();
            let st = cache.stats();
            println!("cfg l1={} l2={} dir={} new={:?} r1={:?} r2={:?} stats={:?}", l1, l2, dir, t1, r1, r2, st);
            // date conditional
            let o = GetOptions { if_unmodified_since: Some(chrono::DateTime::from_timestamp(0, 0).unwrap()), ..Default::default() };
            let a = inner.get_opts(&p, o.clone()).await.map(|_| ()).map_err(|e| format!("{:?}", e));
            let b = cs.get_opts(&p, o.clone()).await.map(|_| ()).map_err(|e| format!("{:?}", e));
            println!("  if_unmodified_since(epoch): inner={:?} cached={:?}", a, b);
            let o = GetOptions { if_modified_since: Some(chrono::Utc::now() + chrono::Duration::hours(1)), ..Default::default() };
            let a = inner.get_opts(&p, o.clone()).await.map(|_| ()).map_err(|e| format!("{:?}", e));
            let b = cs.get_opts(&p, o.clone()).await.map(|_| ()).map_err(|e| format!("{:?}", e));
            println!("  if_modified_since(future): inner={:?} cached={:?}", a, b);
            let q = Path::from("a/zz");
            let a = inner.get(&q).await.map(|_| ()).map_err(|e| format!("{:?}", e));
            let b = cs.get(&q).await.map(|_| ()).map_err(|e| format!("{:?}", e));
            println!("  absent: inner={:?}\n          cached={:?}", a, b);
            let t2 = Instant::now();
            cache.clear().await;
            println!("  clear {:?} total {:?}", t2.elapsed(), t0.elapsed());
        }
    });
}
