//! csv-cascommon — request-granularity schedule driver shared by the CAS
//! properties (C13 shard metadata, C02 catalog, C08 leases).
//!
//! A case = N client tasks (each runs its own list of operations against its
//! own `hub.client(k)` store handle and sends `hub.note(k, "done:<result>")`
//! after every operation) + a schedule (list of client ids).  One schedule
//! entry lets that client perform exactly ONE object-store request and run on
//! until it is parked at its next request or has finished an operation — the
//! `Req c` step of Base/CasProto.v.  Entries naming a client that has nothing
//! left to do are skipped; after the schedule a round-robin drain completes
//! every operation, so that the executed schedule (returned) is a complete run.
use csv_common::sched::{Action, Hub, LogEntry};
use futures::future::LocalBoxFuture;
use std::sync::Arc;
use std::time::Duration;

pub struct SchedRun {
    /// the schedule as executed (skipped entries removed, drain appended)
    pub executed: Vec<usize>,
    /// the action applied to each executed request (Proceed unless a fault was injected)
    pub actions: Vec<Action>,
    /// per executed step: G | Pc+ | Pc- | Pu+ | Pu- | Po+ | Po- | other verbs
    pub kinds: Vec<String>,
    /// object path of each executed request
    pub paths: Vec<String>,
    /// per client, the `done:` results in program order
    pub results: Vec<Vec<String>>,
    /// set when a client neither parked nor reported (panic, deadlock)
    pub stuck: Option<String>,
    pub log: Vec<LogEntry>,
    /// operations in the order in which they finished: (index of the executed
    /// step that ended it, client, index in the client's program)
    pub finished: Vec<(usize, usize, usize)>,
}

/// G | Pc+ | Pc- | Pu+ | Pu- without faults.  With an injected fault: `x` = the
/// request failed without taking effect (Gx, Pcx, Pux), `!` = a PUT that was
/// applied although the client got an error, `~` = fail-after on a PUT whose
/// precondition did not hold (nothing applied).
pub fn kind_of(e: &LogEntry) -> String {
    match e.info.verb {
        "GET" => match e.action {
            Action::Proceed => "G".to_string(),
            _ => "Gx".to_string(),
        },
        "PUT" => {
            let m = match e.info.mode.as_str() {
                "create" => "Pc",
                "update" => "Pu",
                _ => "Po",
            };
            let suffix = match e.action {
                Action::Proceed => if e.ok { "+" } else { "-" },
                Action::FailBefore => "x",
                Action::FailAfter => if e.ok { "!" } else { "~" },
            };
            format!("{}{}", m, suffix)
        }
        v => v.to_string(),
    }
}

/// "<c>", "<c>b" (fail before effect), "<c>a" (fail after effect)
pub fn step_token(c: usize, a: Action) -> String {
    match a {
        Action::Proceed => c.to_string(),
        Action::FailBefore => format!("{}b", c),
        Action::FailAfter => format!("{}a", c),
    }
}

pub fn parse_step_token(t: &str) -> (usize, Action) {
    let t = t.trim();
    if let Some(x) = t.strip_suffix('b') {
        (x.parse().unwrap_or(0), Action::FailBefore)
    } else if let Some(x) = t.strip_suffix('a') {
        (x.parse().unwrap_or(0), Action::FailAfter)
    } else {
        (t.parse().unwrap_or(0), Action::Proceed)
    }
}

impl SchedRun {
    /// for every executed step: index (in its client's program) of the operation it belongs to
    pub fn op_of_step(&self) -> Vec<usize> {
        let mut out = Vec::with_capacity(self.executed.len());
        for (s, &c) in self.executed.iter().enumerate() {
            let i = self.finished.iter().filter(|(fs, fc, _)| *fc == c && *fs < s).count();
            out.push(i);
        }
        out
    }
}

/// Delta debugging with a budget of `max_runs` evaluations of `fails` (a
/// candidate evaluated after the budget is spent counts as "does not fail").
pub fn ddmin_capped<T: Clone>(input: &[T], max_runs: usize, fails: &mut dyn FnMut(&[T]) -> bool) -> Vec<T> {
    let mut runs = 0usize;
    csv_common::ddmin(input, &mut |cand: &[T]| {
        if runs >= max_runs {
            return false;
        }
        runs += 1;
        fails(cand)
    })
}

/// Must run inside a `tokio::task::LocalSet` on a current-thread runtime with
/// paused time.  `tasks[k]` is client k's whole program; `nops[k]` the number
/// of operations (= `done:` notes) it will perform.
pub async fn drive(
    hub: &Arc<Hub>,
    tasks: Vec<LocalBoxFuture<'static, ()>>,
    nops: &[usize],
    schedule: &[usize],
    max_steps: usize,
) -> SchedRun {
    let s: Vec<(usize, Action)> = schedule.iter().map(|c| (*c, Action::Proceed)).collect();
    drive_faults(hub, tasks, nops, &s, max_steps).await
}

/// Like `drive`, but every schedule entry carries the action applied to that
/// request: Proceed, FailBefore (error, store untouched) or FailAfter (the
/// request is performed, the client still gets an error).  The drain uses Proceed.
pub async fn drive_faults(
    hub: &Arc<Hub>,
    tasks: Vec<LocalBoxFuture<'static, ()>>,
    nops: &[usize],
    schedule: &[(usize, Action)],
    max_steps: usize,
) -> SchedRun {
    let n = tasks.len();
    let ids: Vec<usize> = (0..n).collect();
    let _ = hub.take_log();
    let mut ctl = hub.attach(&ids);
    let mut handles = Vec::new();
    for t in tasks {
        handles.push(tokio::task::spawn_local(t));
    }
    let mut done = vec![0usize; n];
    let mut results: Vec<Vec<String>> = vec![Vec::new(); n];
    let mut executed = Vec::new();
    let mut actions = Vec::new();
    let mut stuck = None;
    let mut finished = Vec::new();
    let mut pos = 0usize;
    let mut rr = 0usize;
    loop {
        if executed.len() >= max_steps {
            stuck = Some(format!("more than {} steps", max_steps));
            break;
        }
        // next client: from the schedule, then round-robin drain
        let (c, act) = if pos < schedule.len() {
            let (c, a) = schedule[pos];
            pos += 1;
            if c >= n || done[c] >= nops[c] {
                continue;
            }
            (c, a)
        } else {
            match (0..n).map(|i| (rr + i) % n).find(|&k| done[k] < nops[k]) {
                Some(k) => {
                    rr = k + 1;
                    (k, Action::Proceed)
                }
                None => break,
            }
        };
        let stepped = tokio::time::timeout(Duration::from_secs(36_000), ctl.step(c, act)).await;
        match stepped {
            Ok(Some(_)) => {
                executed.push(c);
                actions.push(act);
            }
            Ok(None) => {
                // a note without a request: collect it below
            }
            Err(_) => {
                stuck = Some(format!("client {} neither parked nor reported after step {}", c, executed.len()));
                break;
            }
        }
        let mut got = false;
        while let Some(note) = ctl.take_note(c) {
            if let Some(r) = note.strip_prefix("done:") {
                results[c].push(r.to_string());
                finished.push((executed.len().saturating_sub(1), c, done[c]));
                done[c] += 1;
                got = true;
            }
        }
        if matches!(stepped, Ok(None)) && !got {
            stuck = Some(format!("client {} gone without reporting", c));
            break;
        }
    }
    ctl.release_all();
    hub.detach();
    for h in handles {
        h.abort();
    }
    let log = hub.take_log();
    let kinds = log.iter().map(kind_of).collect();
    let paths = log.iter().map(|e| e.info.path.clone()).collect();
    SchedRun { executed, actions, kinds, paths, results, stuck, log, finished }
}

/// All sequences over 0..n of the given length (for small exhaustive sweeps).
pub fn all_sequences(n: usize, len: usize) -> Vec<Vec<usize>> {
    let mut out = vec![Vec::new()];
    for _ in 0..len {
        let mut next = Vec::with_capacity(out.len() * n);
        for s in &out {
            for c in 0..n {
                let mut t = s.clone();
                t.push(c);
                next.push(t);
            }
        }
        out = next;
    }
    out
}
