//! csv-cascommon — request-granularity schedule driver shared by the CAS
//! properties (C13 shard metadata, C02 catalog, C08 leases).
//!
//! A case = N client tasks (each runs its own list of operations against its
//! own `hub.client(k)` store handle and sends `hub.note(k, "done:<result>")`
//! after every operation) + a schedule (list of client ids).  One schedule
//! entry lets that client perform exactly ONE object-store request and run on
//! until it is parked at its next request or has finished an operation — the
//! `Req c` step of Base/CasProto.v.  Entries naming a client that has nothing
//! left to do are skipped; after the schedule a round-robin drain completes
//! every operation, so that the executed schedule (returned) is a complete run.
use csv_common::sched::{Action, Hub, LogEntry};
use futures::future::LocalBoxFuture;
use std::sync::Arc;
use std::time::Duration;

pub struct SchedRun {
    /// the schedule as executed (skipped entries removed, drain appended)
    pub executed: Vec<usize>,
    /// per executed step: G | Pc+ | Pc- | Pu+ | Pu- | Po+ | Po- | other verbs
    pub kinds: Vec<String>,
    /// object path of each executed request
    pub paths: Vec<String>,
    /// per client, the `done:` results in program order
    pub results: Vec<Vec<String>>,
    /// set when a client neither parked nor reported (panic, deadlock)
    pub stuck: Option<String>,
    pub log: Vec<LogEntry>,
    /// operations in the order in which they finished: (index of the executed
    /// step that ended it, client, index in the client's program)
    pub finished: Vec<(usize, usize, usize)>,
}

pub fn kind_of(e: &LogEntry) -> String {
    match e.info.verb {
        "GET" => "G".to_string(),
        "PUT" => {
            let m = match e.info.mode.as_str() {
                "create" => "Pc",
                "update" => "Pu",
                _ => "Po",
            };
            format!("{}{}", m, if e.ok { "+" } else { "-" })
        }
        v => v.to_string(),
    }
}

/// Must run inside a `tokio::task::LocalSet` on a current-thread runtime with
/// paused time.  `tasks[k]` is client k's whole program; `nops[k]` the number
/// of operations (= `done:` notes) it will perform.
pub async fn drive(
    hub: &Arc<Hub>,
    tasks: Vec<LocalBoxFuture<'static, ()>>,
    nops: &[usize],
    schedule: &[usize],
    max_steps: usize,
) -> SchedRun {
    let n = tasks.len();
    let ids: Vec<usize> = (0..n).collect();
    let _ = hub.take_log();
    let mut ctl = hub.attach(&ids);
    let mut handles = Vec::new();
    for t in tasks {
        handles.push(tokio::task::spawn_local(t));
    }
    let mut done = vec![0usize; n];
    let mut results: Vec<Vec<String>> = vec![Vec::new(); n];
    let mut executed = Vec::new();
    let mut stuck = None;
    let mut finished = Vec::new();
    let mut pos = 0usize;
    let mut rr = 0usize;
    loop {
        if executed.len() >= max_steps {
            stuck = Some(format!("more than {} steps", max_steps));
            break;
        }
        // next client: from the schedule, then round-robin drain
        let c = if pos < schedule.len() {
            let c = schedule[pos];
            pos += 1;
            if c >= n || done[c] >= nops[c] {
                continue;
            }
            c
        } else {
            match (0..n).map(|i| (rr + i) % n).find(|&k| done[k] < nops[k]) {
                Some(k) => {
                    rr = k + 1;
                    k
                }
                None => break,
            }
        };
        let stepped = tokio::time::timeout(Duration::from_secs(36_000), ctl.step(c, Action::Proceed)).await;
        match stepped {
            Ok(Some(_)) => executed.push(c),
            Ok(None) => {
                // a note without a request: collect it below
            }
            Err(_) => {
                stuck = Some(format!("client {} neither parked nor reported after step {}", c, executed.len()));
                break;
            }
        }
        let mut got = false;
        while let Some(note) = ctl.take_note(c) {
            if let Some(r) = note.strip_prefix("done:") {
                results[c].push(r.to_string());
                finished.push((executed.len().saturating_sub(1), c, done[c]));
                done[c] += 1;
                got = true;
            }
        }
        if matches!(stepped, Ok(None)) && !got {
            stuck = Some(format!("client {} gone without reporting", c));
            break;
        }
    }
    ctl.release_all();
    hub.detach();
    for h in handles {
        h.abort();
    }
    let log = hub.take_log();
    let kinds = log.iter().map(kind_of).collect();
    let paths = log.iter().map(|e| e.info.path.clone()).collect();
    SchedRun { executed, kinds, paths, results, stuck, log, finished }
}

/// All sequences over 0..n of the given length (for small exhaustive sweeps).
pub fn all_sequences(n: usize, len: usize) -> Vec<Vec<usize>> {
    let mut out = vec![Vec::new()];
    for _ in 0..len {
        let mut next = Vec::with_capacity(out.len() * n);
        for s in &out {
            for c in 0..n {
                let mut t = s.clone();
                t.push(c);
                next.push(t);
            }
        }
        out = next;
    }
    out
}
