//! csv-split — correspondence + oracle for C14 (a shard split can be resumed
//! from any interruption and conserves data).
//!
//! The real `ShardSplitter` runs over a gated object store (a
//! `csv_common::sched::SchedStore` handle whose fault plan is armed per
//! request) and a gated `MetadataClient` (`FaultMeta` around the real
//! `LocalMetadataClient` / `ObjectStoreMetadataClient`).  Every external request
//! of a run has an index; a fault script assigns to request indices of the
//! initial run and of each resume one of: fail before effect, fail after
//! effect, crash before, crash after.  The extracted Coq model
//! (`modelrun-split`, Model/Split.v) executes the same script; results, request
//! traces and the observable state after every run are compared.  The oracle
//! (independent of the model): after the first fault-free resume the state is
//! `Final ∧ conserve` (or the split provably never began), and no old-shard
//! chunk is removed before the cut-over completed.
mod gate;

use arrow::array::{Array, Int64Array, RecordBatch};
use arrow::datatypes::{DataType, Field, Schema};
use bytes::Bytes;
use cardinalsin::ingester::ChunkMetadata;
use cardinalsin::metadata::{LocalMetadataClient, MetadataClient, ObjectStoreMetadataClient, ObjectStoreMetadataConfig};
use cardinalsin::sharding::{ReplicaInfo, ShardMetadata, ShardSplitter, ShardState};
use csv_common::sched::Hub;
use csv_common::{Args, Model, Report, Rng};
use futures::TryStreamExt;
use gate::{f64_token, key_i64, phase_letter, progress_text, state_letter, FaultMeta, Gate, GateStore, Mode};
use object_store::memory::InMemory;
use object_store::ObjectStore;
use parquet::arrow::arrow_reader::ParquetRecordBatchReaderBuilder;
use parquet::arrow::ArrowWriter;
use serde_json::json;
use std::collections::HashMap;
use std::sync::Arc;
use std::time::Duration;

const OLD: &str = "shard-old-7";
const W5: i64 = 300_000_000_000;

#[derive(Clone, Debug, PartialEq)]
struct Cfg {
    lo: i64,
    hi: i64,
    min_t: i64,
    max_t: i64,
    gen: u64,
}

#[derive(Clone, Debug, PartialEq)]
struct Chunk {
    idx: u32,
    rows: Vec<(i64, i64)>, // (id, ts)
}

type Plan = Vec<(usize, Mode)>;

#[derive(Clone, Debug, PartialEq)]
struct Case {
    cfg: Cfg,
    chunks: Vec<Chunk>,
    script: Vec<Plan>,
}

#[derive(Clone, Copy, Debug, PartialEq)]
enum Backend {
    Local,
    ObjectStore,
}

fn split_point(c: &Cfg) -> i64 {
    let mid = c.min_t + (c.max_t - c.min_t) / 2;
    (mid / W5) * W5
}

// ----------------------------------------------------------- encoding -----
fn encode_script(script: &[Plan]) -> String {
    script
        .iter()
        .map(|p| p.iter().map(|(k, m)| format!("{}:{}", k, m.name())).collect::<Vec<_>>().join(","))
        .collect::<Vec<_>>()
        .join("/")
}

fn encode(case: &Case) -> String {
    let c = &case.cfg;
    let chunks = case
        .chunks
        .iter()
        .map(|ch| format!("{}={}", ch.idx, ch.rows.iter().map(|(i, t)| format!("{}@{}", i, t)).collect::<Vec<_>>().join(",")))
        .collect::<Vec<_>>()
        .join("|");
    format!("{} {} {} {} {};{};{}", c.lo, c.hi, c.min_t, c.max_t, c.gen, chunks, encode_script(&case.script))
}

fn decode(line: &str) -> Case {
    let parts: Vec<&str> = line.splitn(3, ';').collect();
    let f: Vec<i64> = parts[0].split(' ').map(|x| x.parse().unwrap()).collect();
    let cfg = Cfg { lo: f[0], hi: f[1], min_t: f[2], max_t: f[3], gen: f[4] as u64 };
    let chunks = parts[1]
        .split('|')
        .filter(|s| !s.is_empty())
        .map(|s| {
            let (i, rows) = s.split_once('=').unwrap();
            Chunk {
                idx: i.parse().unwrap(),
                rows: rows
                    .split(',')
                    .filter(|r| !r.is_empty())
                    .map(|r| {
                        let (a, b) = r.split_once('@').unwrap();
                        (a.parse().unwrap(), b.parse().unwrap())
                    })
                    .collect(),
            }
        })
        .collect();
    let script = parts[2]
        .split('/')
        .map(|run| {
            run.split(',')
                .filter(|s| !s.is_empty())
                .map(|s| {
                    let (k, m) = s.split_once(':').unwrap();
                    (k.parse().unwrap(), Mode::parse(m).unwrap())
                })
                .collect()
        })
        .collect();
    Case { cfg, chunks, script }
}

// -------------------------------------------------------------- world -----
struct World {
    raw: Arc<InMemory>,
    hub: Arc<Hub>,
    gate: Arc<Gate>,
    backend: Backend,
    local: Arc<LocalMetadataClient>,
    shard: ShardMetadata,
}

fn s3cfg() -> ObjectStoreMetadataConfig {
    ObjectStoreMetadataConfig { bucket: "b".into(), metadata_prefix: "metadata/".into(), enable_cache: true, allow_unsafe_overwrite: false }
}

impl World {
    /// a metadata client as a freshly started process would have it
    fn meta(&self) -> Arc<dyn MetadataClient> {
        match self.backend {
            Backend::Local => self.local.clone(),
            Backend::ObjectStore => {
                let store: Arc<dyn ObjectStore> = self.raw.clone();
                Arc::new(ObjectStoreMetadataClient::new(store, s3cfg()))
            }
        }
    }
}

fn parquet_bytes(rows: &[(i64, i64)]) -> Vec<u8> {
    let schema = Arc::new(Schema::new(vec![
        Field::new("timestamp", DataType::Int64, false),
        Field::new("value", DataType::Int64, false),
    ]));
    let ts = Int64Array::from(rows.iter().map(|r| r.1).collect::<Vec<_>>());
    let id = Int64Array::from(rows.iter().map(|r| r.0).collect::<Vec<_>>());
    let batch = RecordBatch::try_new(schema.clone(), vec![Arc::new(ts), Arc::new(id)]).unwrap();
    let mut buf = Vec::new();
    let mut w = ArrowWriter::try_new(&mut buf, schema, None).unwrap();
    w.write(&batch).unwrap();
    w.close().unwrap();
    buf
}

fn decode_rows(bytes: Bytes) -> Result<Vec<(i64, i64)>, String> {
    let reader = ParquetRecordBatchReaderBuilder::try_new(bytes).map_err(|e| e.to_string())?.build().map_err(|e| e.to_string())?;
    let mut out = Vec::new();
    for b in reader {
        let b = b.map_err(|e| e.to_string())?;
        let ts = b.column_by_name("timestamp").ok_or("no timestamp")?.as_any().downcast_ref::<Int64Array>().ok_or("ts type")?.clone();
        let id = b.column_by_name("value").ok_or("no value")?.as_any().downcast_ref::<Int64Array>().ok_or("id type")?.clone();
        for i in 0..b.num_rows() {
            out.push((id.value(i), ts.value(i)));
        }
    }
    Ok(out)
}

async fn setup(case: &Case, backend: Backend) -> World {
    let raw = Arc::new(InMemory::new());
    let inner: Arc<dyn ObjectStore> = raw.clone();
    let hub = Hub::new(inner);
    let gate = Gate::new(OLD);
    let c = &case.cfg;
    let shard = ShardMetadata {
        shard_id: OLD.to_string(),
        generation: c.gen,
        key_range: (c.lo.to_be_bytes().to_vec(), c.hi.to_be_bytes().to_vec()),
        replicas: vec![ReplicaInfo { replica_id: "r1".into(), node_id: "n1".into(), is_leader: true }],
        state: ShardState::Active,
        min_time: c.min_t,
        max_time: c.max_t,
    };
    let w = World { raw, hub, gate, backend, local: Arc::new(LocalMetadataClient::new()), shard };
    let meta = w.meta();
    for g in 0..c.gen {
        meta.update_shard_metadata(OLD, &w.shard, g).await.expect("setup shard");
    }
    for ch in &case.chunks {
        let path = w.gate.src_path(ch.idx);
        let bytes = parquet_bytes(&ch.rows);
        let n = bytes.len();
        w.raw.put(&path.as_str().into(), Bytes::from(bytes).into()).await.unwrap();
        let (mn, mx) = if ch.rows.is_empty() { (0, 0) } else { (ch.rows.iter().map(|r| r.1).min().unwrap(), ch.rows.iter().map(|r| r.1).max().unwrap()) };
        meta.register_chunk(&path, &ChunkMetadata { path: path.clone(), min_timestamp: mn, max_timestamp: mx, row_count: ch.rows.len() as u64, size_bytes: n as u64 })
            .await
            .unwrap();
    }
    w
}

fn classify_err(e: &cardinalsin::Error) -> String {
    let txt = e.to_string();
    if txt.contains("injected fault") {
        return "err:inj".into();
    }
    match e {
        cardinalsin::Error::Internal(m) if m.contains("No split in progress") => "err:nosplit".into(),
        cardinalsin::Error::Internal(m) if m.contains("Backfill only") => "err:backfill".into(),
        cardinalsin::Error::ShardNotFound(_) => "err:noshard".into(),
        cardinalsin::Error::StaleGeneration { .. } => "err:stale".into(),
        cardinalsin::Error::ObjectStore(object_store::Error::NotFound { .. }) => "err:noobj".into(),
        _ => format!("err:other[{}]", txt.replace([';', '|', '#'], " ")),
    }
}

/// One run (index 0 = execute_split, otherwise resume_split) under a fault plan.
async fn run_once(w: &World, idx: usize, plan: &Plan) -> (String, Vec<String>) {
    w.gate.begin_run(plan.clone());
    let meta: Arc<dyn MetadataClient> = Arc::new(FaultMeta { gate: w.gate.clone(), inner: w.meta() });
    let store: Arc<dyn ObjectStore> = Arc::new(GateStore { gate: w.gate.clone(), hub: w.hub.clone(), inner: w.hub.client(0) });
    let splitter = ShardSplitter::new(meta, store);
    let shard = w.shard.clone();
    let fut = async {
        if idx == 0 {
            splitter.execute_split(&shard).await.map(|_| "ok".to_string())
        } else {
            splitter.resume_split(OLD).await.map(|b| if b { "okT".to_string() } else { "okF".to_string() })
        }
    };
    let res = match tokio::time::timeout(Duration::from_secs(50_000_000), fut).await {
        Ok(Ok(s)) => s,
        Ok(Err(e)) => classify_err(&e),
        Err(_) => {
            if w.gate.inner.lock().unwrap().crashed {
                "crash".to_string()
            } else {
                "hang".to_string()
            }
        }
    };
    let trace = w.gate.inner.lock().unwrap().trace.clone();
    (res, trace)
}

#[derive(Clone, Debug, Default)]
struct Obs {
    prog: String,
    split: String,
    shards: Vec<String>, // o, a, b
    old_cat: usize,
    old_objs: usize,
    new_cat: Vec<String>,
    new_objs: Vec<String>,
    rows_a: Vec<(i64, i64)>,
    rows_b: Vec<(i64, i64)>,
    rows_problem: Option<String>,
    // raw values for the oracle
    shard_meta: Vec<Option<ShardMetadata>>,
    split_present: bool,
}

fn sort_names(v: &mut Vec<String>) {
    v.sort_by_key(|n| {
        let side = n.chars().next().unwrap_or('?');
        let rest: String = n.chars().skip(1).take_while(|c| *c != ':').collect();
        let mut it = rest.split('.');
        let i = it.next().and_then(|x| x.parse::<u64>().ok()).unwrap_or(u64::MAX);
        let b = it.next().and_then(|x| x.parse::<u64>().ok()).unwrap_or(u64::MAX);
        (side, i, b, n.clone())
    });
}

async fn observe(w: &World, with_rows: bool) -> Obs {
    let meta = w.meta();
    let mut o = Obs::default();
    let ppath: object_store::path::Path = w.gate.progress_path().as_str().into();
    o.prog = match w.raw.get(&ppath).await {
        Ok(r) => progress_text(&w.gate, &r.bytes().await.unwrap()),
        Err(_) => "-".into(),
    };
    match meta.get_split_state(OLD).await.unwrap() {
        Some(s) => {
            o.split = format!("{},{},{}", phase_letter(Some(s.phase)), f64_token(s.backfill_progress), key_i64(&s.split_point));
            o.split_present = true;
        }
        None => o.split = "-".into(),
    }
    let ids: Vec<(char, Option<String>)> = {
        let g = w.gate.inner.lock().unwrap();
        vec![('o', Some(OLD.to_string())), ('a', g.new_shards.as_ref().map(|x| x.0.clone())), ('b', g.new_shards.as_ref().map(|x| x.1.clone()))]
    };
    for (letter, id) in &ids {
        let m = match id {
            Some(id) => meta.get_shard_metadata(id).await.unwrap(),
            None => None,
        };
        o.shards.push(match &m {
            Some(m) => format!("{}:{}:{}:{}:{}:{}:{}", letter, state_letter(&m.state), m.generation, key_i64(&m.key_range.0), key_i64(&m.key_range.1), m.min_time, m.max_time),
            None => format!("{}:-", letter),
        });
        o.shard_meta.push(m);
    }
    o.old_cat = meta.get_chunks_for_shard(OLD).await.unwrap().len();
    let all: Vec<object_store::ObjectMeta> = w.raw.list(None).try_collect().await.unwrap();
    for om in &all {
        let p = om.location.to_string();
        if p.starts_with("metadata") {
            continue;
        }
        let name = w.gate.chunk_name(&p);
        if name.starts_with('s') {
            o.old_objs += 1;
        } else {
            o.new_objs.push(name);
        }
    }
    sort_names(&mut o.new_objs);
    for (letter, id) in ids.iter().skip(1) {
        let Some(id) = id else { continue };
        let entries = meta.get_chunks_for_shard(id).await.unwrap();
        for e in entries {
            let name = w.gate.chunk_name(&e.chunk_path);
            o.new_cat.push(format!("{}:{}:{}:{}", name, e.min_timestamp, e.max_timestamp, e.row_count));
            if with_rows {
                let p: object_store::path::Path = e.chunk_path.as_str().into();
                match w.raw.get(&p).await {
                    Ok(r) => match decode_rows(r.bytes().await.unwrap()) {
                        Ok(rows) => {
                            if *letter == 'a' {
                                o.rows_a.extend(rows)
                            } else {
                                o.rows_b.extend(rows)
                            }
                        }
                        Err(e) => o.rows_problem = Some(format!("chunk {} unreadable: {}", name, e)),
                    },
                    Err(_) => o.rows_problem = Some(format!("registered chunk {} has no object", name)),
                }
            }
        }
    }
    sort_names(&mut o.new_cat);
    o.rows_a.sort();
    o.rows_b.sort();
    o
}

fn obs_text(o: &Obs) -> String {
    format!(
        "prog={} split={} sh={} oc={}/{} nc={} no={}",
        o.prog,
        o.split,
        o.shards.join(","),
        o.old_cat,
        o.old_objs,
        o.new_cat.join(","),
        o.new_objs.join(",")
    )
}

fn rows_text(o: &Obs) -> String {
    let f = |v: &Vec<(i64, i64)>| v.iter().map(|(i, t)| format!("{}@{}", i, t)).collect::<Vec<_>>().join(",");
    match &o.rows_problem {
        Some(p) => format!("rows PROBLEM {}", p),
        None => format!("rows a=[{}] b=[{}]", f(&o.rows_a), f(&o.rows_b)),
    }
}

// ------------------------------------------------------------- oracle -----
fn final_problems(case: &Case, o: &Obs) -> Vec<String> {
    let c = &case.cfg;
    let sp = split_point(c);
    let mut bad = Vec::new();
    if o.prog != "-" {
        bad.push(format!("progress file left behind ({})", o.prog));
    }
    if o.split_present {
        bad.push(format!("split state left behind ({})", o.split));
    }
    let want = |m: &Option<ShardMetadata>, name: &str, lo: i64, hi: i64, mn: i64, mx: i64, active: bool, bad: &mut Vec<String>| match m {
        None => bad.push(format!("shard {} has no metadata", name)),
        Some(m) => {
            let okstate = if active { m.state == ShardState::Active } else { matches!(m.state, ShardState::PendingDeletion { .. }) };
            if !okstate {
                bad.push(format!("shard {} is in state {}", name, state_letter(&m.state)));
            }
            if m.key_range.0 != lo.to_be_bytes().to_vec() || m.key_range.1 != hi.to_be_bytes().to_vec() || m.min_time != mn || m.max_time != mx {
                bad.push(format!(
                    "shard {} covers keys [{},{}) times [{},{}], expected [{},{}) [{},{}]",
                    name,
                    key_i64(&m.key_range.0),
                    key_i64(&m.key_range.1),
                    m.min_time,
                    m.max_time,
                    lo,
                    hi,
                    mn,
                    mx
                ));
            }
        }
    };
    want(&o.shard_meta[0], "old", c.lo, c.hi, c.min_t, c.max_t, false, &mut bad);
    want(&o.shard_meta[1], "A", c.lo, sp, c.min_t, sp, true, &mut bad);
    want(&o.shard_meta[2], "B", sp, c.hi, sp, c.max_t, true, &mut bad);
    bad
}

fn conserve_problems(case: &Case, o: &Obs) -> Vec<String> {
    let sp = split_point(&case.cfg);
    let mut bad = Vec::new();
    if let Some(p) = &o.rows_problem {
        bad.push(p.clone());
    }
    let mut lower: Vec<(i64, i64)> = case.chunks.iter().flat_map(|c| c.rows.iter().cloned()).filter(|r| r.1 < sp).collect();
    let mut upper: Vec<(i64, i64)> = case.chunks.iter().flat_map(|c| c.rows.iter().cloned()).filter(|r| r.1 >= sp).collect();
    lower.sort();
    upper.sort();
    if o.rows_a != lower {
        bad.push(format!("lower shard holds {} rows, the old shard had {} rows below the split point {} (multisets differ)", o.rows_a.len(), lower.len(), sp));
    }
    if o.rows_b != upper {
        bad.push(format!("upper shard holds {} rows, the old shard had {} rows at/above the split point {} (multisets differ)", o.rows_b.len(), upper.len(), sp));
    }
    bad
}

fn cutover_complete(o: &Obs) -> bool {
    !o.split_present
        && matches!(&o.shard_meta[0], Some(m) if matches!(m.state, ShardState::PendingDeletion { .. }))
        && o.shard_meta[1].is_some()
        && o.shard_meta[2].is_some()
}

struct Outcome {
    /// canonical output (same format as the model runner)
    text: String,
    /// the script that was actually executed (faulted runs + fault-free resumes)
    script: Vec<Plan>,
    oracle: Vec<String>,
}

/// Runs the case: the runs of `case.script`, then `extra` fault-free resumes
/// (more, up to 5, while a fault-free resume keeps failing).
async fn run_case(case: &Case, backend: Backend, extra: usize) -> Outcome {
    let w = setup(case, backend).await;
    let initial = observe(&w, false).await;
    let nchunks = case.chunks.len();
    let mut parts = Vec::new();
    let mut oracle = Vec::new();
    let mut script = Vec::new();
    let mut idx = 0usize;
    let mut clean_resumes = 0usize;
    let mut last_clean: Option<(String, Obs)> = None;
    let mut first_clean: Option<(String, Obs)> = None;
    loop {
        let plan: Plan = if idx < case.script.len() {
            case.script[idx].clone()
        } else {
            Vec::new()
        };
        let faulted_phase = idx < case.script.len();
        let (res, trace) = run_once(&w, idx, &plan).await;
        let o = observe(&w, false).await;
        parts.push(format!("{}|{}|{}|{}", res, trace.len(), trace.join(" "), obs_text(&o)));
        script.push(plan.clone());
        // invariant: old data intact unless the cut-over completed
        if !cutover_complete(&o) && (o.old_cat != nchunks || o.old_objs != nchunks) {
            oracle.push(format!("run {}: old-shard data removed before the cut-over completed (catalog {}/{} objects {}/{})", idx, o.old_cat, nchunks, o.old_objs, nchunks));
        }
        let is_clean_resume = idx > 0 && plan.is_empty();
        if !faulted_phase && is_clean_resume {
            clean_resumes += 1;
            if first_clean.is_none() {
                first_clean = Some((res.clone(), o.clone()));
            }
            last_clean = Some((res.clone(), o.clone()));
        }
        idx += 1;
        if idx >= case.script.len() {
            let stranded = matches!(&last_clean, Some((r, _)) if r != "okT" && r != "okF");
            let want = if stranded { 5 } else { extra };
            if clean_resumes >= want {
                break;
            }
        }
    }
    for r in w.gate.inner.lock().unwrap().early_removals.iter() {
        oracle.push(r.clone());
    }
    let fin = observe(&w, true).await;
    // the split never began iff the initial run was stopped at its very first request before it took effect
    let never_began = matches!(case.script.first().and_then(|p| p.iter().find(|(k, _)| *k == 0)), Some((_, Mode::FB)) | Some((_, Mode::CB)));
    if extra > 0 {
        match &first_clean {
            Some((r, o)) if r == "okT" || r == "okF" => {
                if never_began && r == "okF" && obs_text(o) == obs_text(&initial) {
                    // nothing to resume, nothing changed: not an interrupted split
                } else {
                    for p in final_problems(case, o) {
                        oracle.push(format!("after the first fault-free resume ({}): {}", r, p));
                    }
                    for p in final_problems(case, &fin) {
                        oracle.push(format!("at the end: {}", p));
                    }
                    for p in conserve_problems(case, &fin) {
                        oracle.push(format!("at the end: {}", p));
                    }
                }
            }
            Some((r, _)) => {
                let (lr, _) = last_clean.as_ref().unwrap();
                oracle.push(format!("fault-free resume fails with {} (after {} fault-free resumes: {}) — the split is stranded", r, clean_resumes, lr));
            }
            None => {}
        }
    }
    parts.push(rows_text(&fin));
    Outcome { text: parts.join(" ## "), script, oracle }
}

/// `{c/t}` in the model's output stands for the f64 quotient c/t
fn expand_fractions(s: &str) -> String {
    let mut out = String::with_capacity(s.len());
    let mut rest = s;
    while let Some(i) = rest.find('{') {
        out.push_str(&rest[..i]);
        let tail = &rest[i + 1..];
        if let Some(j) = tail.find('}') {
            let inner = &tail[..j];
            if let Some((a, b)) = inner.split_once('/') {
                if let (Ok(a), Ok(b)) = (a.parse::<u64>(), b.parse::<u64>()) {
                    out.push_str(&f64_token(a as f64 / b as f64));
                    rest = &tail[j + 1..];
                    continue;
                }
            }
            out.push('{');
            rest = tail;
        } else {
            out.push('{');
            rest = tail;
        }
    }
    out.push_str(rest);
    out
}

// ---------------------------------------------------------- generator -----
fn gen_cfg(rng: &mut Rng) -> Cfg {
    let (min_t, max_t) = match rng.below(5) {
        0 => (0, 20 * W5),
        1 => (-7 * W5 - 5, 3 * W5 + 1),
        2 => (3 * W5 + 17, 9 * W5 + 4),
        3 => (-40 * W5, -2 * W5 - 1),
        _ => {
            let a = rng.range_i64(-30, 30) * W5 + rng.range_i64(-3, 3);
            (a, a + rng.range_i64(2, 40) * W5 + rng.range_i64(0, 5))
        }
    };
    let lo = rng.range_i64(-1000, 1000);
    Cfg { lo, hi: lo + rng.range_i64(1, 100_000), min_t, max_t, gen: 1 + rng.below(3) }
}

fn gen_ts(rng: &mut Rng, sp: i64, c: &Cfg) -> i64 {
    match rng.below(9) {
        0 => sp,
        1 => sp - 1,
        2 => sp + 1,
        3 => rng.range_i64(c.min_t.min(sp - 1), sp - 1),
        4 => rng.range_i64(sp, c.max_t.max(sp)),
        5 => sp - rng.range_i64(1, 1000),
        6 => sp + rng.range_i64(0, 1000),
        7 => c.min_t,
        _ => c.max_t,
    }
}

fn gen_chunks(rng: &mut Rng, c: &Cfg, report: &mut Report) -> Vec<Chunk> {
    let sp = split_point(c);
    let n = rng.range_usize(1, 4);
    let mut id = 1i64;
    let mut out = Vec::new();
    // non-contiguous, increasing chunk numbers
    let mut idx = rng.below(3) as u32;
    for _ in 0..n {
        let kind = rng.below(8);
        let nrows = match kind {
            0 => 0,
            _ => rng.range_usize(1, 6),
        };
        let mut rows = Vec::new();
        for _ in 0..nrows {
            let ts = match kind {
                1 => sp - rng.range_i64(1, 50),  // entirely below
                2 => sp + rng.range_i64(0, 50),  // entirely at/above
                3 => sp,                         // all exactly at the split point
                _ => gen_ts(rng, sp, c),
            };
            rows.push((id, ts));
            id += 1;
        }
        match kind {
            0 => report.bump("chunk.empty"),
            1 => report.bump("chunk.all_below"),
            2 => report.bump("chunk.all_above"),
            3 => report.bump("chunk.all_at_split"),
            _ => report.bump("chunk.mixed"),
        }
        out.push(Chunk { idx, rows });
        idx += 1 + rng.below(3) as u32;
    }
    out
}

/// a chunk larger than one reader batch (8192 rows): two batch indices
fn big_dataset(c: &Cfg) -> Vec<Chunk> {
    let sp = split_point(c);
    let mut rows = Vec::new();
    for i in 0..8200i64 {
        // first batch: mixed; second batch (rows 8192..): mixed as well
        let ts = if i % 3 == 0 { sp - 1 - (i % 7) } else { sp + (i % 5) };
        rows.push((i + 1, ts));
    }
    vec![Chunk { idx: 0, rows }, Chunk { idx: 1, rows: vec![(9001, sp - 1), (9002, sp), (9003, sp + 1)] }]
}

fn corpus() -> Vec<(String, Case)> {
    let cfg = Cfg { lo: 0, hi: 1000, min_t: 0, max_t: 20 * W5, gen: 1 };
    let sp = split_point(&cfg);
    let chunks = vec![
        Chunk { idx: 0, rows: vec![(1, sp - 1), (2, sp), (3, sp + 1), (4, 5)] },
        Chunk { idx: 1, rows: vec![(5, sp - 10), (6, sp - 20)] },
        Chunk { idx: 2, rows: vec![(7, sp + 10), (8, sp), (9, sp)] },
    ];
    let mk = |script: Vec<Plan>| Case { cfg: cfg.clone(), chunks: chunks.clone(), script };
    vec![
        ("corpus.no_fault".into(), mk(vec![vec![]])),
        // the three positions that stranded the split before the repairs
        ("corpus.crash_after_first_progress_put".into(), mk(vec![vec![(0, Mode::CA)]])),
        ("corpus.start_split_fails_before_effect".into(), mk(vec![vec![(1, Mode::FB)]])),
        ("corpus.first_request_fails_before_effect".into(), mk(vec![vec![(0, Mode::FB)]])),
    ]
}

fn nontrivial(case: &Case) -> bool {
    let sp = split_point(&case.cfg);
    let rows: Vec<&(i64, i64)> = case.chunks.iter().flat_map(|c| c.rows.iter()).collect();
    rows.iter().any(|r| r.1 < sp) && rows.iter().any(|r| r.1 >= sp) && case.script.iter().any(|p| !p.is_empty())
}

// --------------------------------------------------------------- main -----
struct Ctx<'a> {
    rt: &'a tokio::runtime::Runtime,
    model: Model,
    report: Report,
    model_cache: HashMap<String, String>,
}

impl<'a> Ctx<'a> {
    fn model_answer(&mut self, line: &str) -> String {
        if let Some(a) = self.model_cache.get(line) {
            return a.clone();
        }
        let a = expand_fractions(&self.model.ask(line));
        if self.model_cache.len() < 20_000 && line.len() < 4096 {
            self.model_cache.insert(line.to_string(), a.clone());
        }
        a
    }

    /// runs one case on both backends, compares with the model, evaluates the oracle
    fn check(&mut self, origin: &str, case: &Case, extra: usize) -> usize {
        let mut trace_len = 0;
        for backend in [Backend::Local, Backend::ObjectStore] {
            let out = self.rt.block_on(run_case(case, backend, extra));
            self.report.impl_runs += 1;
            let executed = Case { cfg: case.cfg.clone(), chunks: case.chunks.clone(), script: out.script.clone() };
            let line = encode(&executed);
            let key = format!("{:?}|{}", backend, line);
            self.report.case(if nontrivial(case) { Some(&key) } else { None });
            self.report.bump(&format!("origin.{}", origin));
            self.report.bump(&format!("backend.{:?}", backend));
            let first = out.text.split(" ## ").next().unwrap_or("");
            trace_len = first.split('|').nth(1).and_then(|x| x.parse().ok()).unwrap_or(0);
            let res0 = first.split('|').next().unwrap_or("").to_string();
            self.report.bump(&format!("first_run.{}", res0.split('[').next().unwrap_or("")));
            if !self.model.is_null() {
                let m = self.model_answer(&line);
                if self.report.samples.len() < self.report.max_samples && line.len() < 2000 {
                    self.report.sample(json!({"backend": format!("{:?}", backend), "case": line, "impl": out.text, "model": m}));
                }
                if m != out.text {
                    let (ia, ma) = first_difference(&out.text, &m);
                    self.report.disagreement(json!({
                        "correspondence": "splitter model (Model/Split.v) vs ShardSplitter over the gated store / metadata client",
                        "backend": format!("{:?}", backend),
                        "case": line, "impl": clip(&out.text), "model": clip(&m),
                        "first_difference": {"impl": ia, "model": ma},
                        "shrunk": line,
                        "oracle_failed": !out.oracle.is_empty(),
                    }));
                }
            }
            if !out.oracle.is_empty() {
                let case_json = json!({"backend": format!("{:?}", backend), "line": encode(case), "extra": extra});
                self.report.oracle_violation("", &out.oracle.join("; "), case_json);
            }
        }
        trace_len
    }
}

fn clip(s: &str) -> String {
    if s.len() > 6000 {
        format!("{} …[{} bytes]", &s[..6000], s.len())
    } else {
        s.to_string()
    }
}

fn first_difference(a: &str, b: &str) -> (String, String) {
    let ta: Vec<&str> = a.split(' ').collect();
    let tb: Vec<&str> = b.split(' ').collect();
    for i in 0..ta.len().max(tb.len()) {
        let x = ta.get(i).copied().unwrap_or("<end>");
        let y = tb.get(i).copied().unwrap_or("<end>");
        if x != y {
            return (format!("token {}: {}", i, clip(x)), format!("token {}: {}", i, clip(y)));
        }
    }
    ("".into(), "".into())
}

fn main() {
    let args = Args::parse();
    csv_common::quiet_panics();
    let rt = tokio::runtime::Builder::new_current_thread().enable_all().start_paused(true).build().unwrap();
    let model = Model::spawn(&args.model);
    let mut ctx = Ctx { rt: &rt, model, report: Report::new("C14"), model_cache: HashMap::new() };
    ctx.report.max_samples = 4;

    if let Some(path) = &args.replay {
        let txt = std::fs::read_to_string(path).expect("replay file");
        let v: serde_json::Value = serde_json::from_str(&txt).expect("replay json");
        let c = if v["case"].is_object() { v["case"].clone() } else { v.clone() };
        let line = c["line"].as_str().or_else(|| c["case"].as_str()).unwrap_or("").to_string();
        let extra = c["extra"].as_u64().unwrap_or(2) as usize;
        if line.splitn(3, ';').count() != 3 {
            println!("replay file holds no case line (a broken proof / tie without a failing input): nothing to re-run");
            std::process::exit(1);
        }
        let case = decode(&line);
        let mut failed = false;
        for backend in [Backend::Local, Backend::ObjectStore] {
            if let Some(b) = c["backend"].as_str() {
                if b != format!("{:?}", backend) {
                    continue;
                }
            }
            let out = rt.block_on(run_case(&case, backend, extra));
            let executed = Case { cfg: case.cfg.clone(), chunks: case.chunks.clone(), script: out.script.clone() };
            let m = expand_fractions(&ctx.model.ask(&encode(&executed)));
            println!("backend: {:?}\ncase : {}\nimpl : {}\nmodel: {}\noracle failures: {:?}", backend, encode(&executed), out.text, m, out.oracle);
            if !out.oracle.is_empty() || (!ctx.model.is_null() && m != out.text) {
                failed = true;
            }
        }
        std::process::exit(if failed { 1 } else { 0 });
    }

    let mut rng = Rng::new(args.seed);
    let thorough = args.thorough();

    // 0. corpus
    for (name, case) in corpus() {
        ctx.check(&name, &case, 2);
    }

    // 0b. witness files (corpus/C14/*.json): the formerly stranding positions, by name
    if let Ok(dir) = std::fs::read_dir("corpus/C14") {
        let mut files: Vec<_> = dir.filter_map(|e| e.ok()).map(|e| e.path()).filter(|p| p.extension().map(|x| x == "json").unwrap_or(false)).collect();
        files.sort();
        let mut seen = std::collections::HashSet::new();
        for f in files {
            let Ok(txt) = std::fs::read_to_string(&f) else { continue };
            let Ok(v) = serde_json::from_str::<serde_json::Value>(&txt) else { continue };
            let Some(line) = v["case"]["line"].as_str() else { continue };
            if line.splitn(3, ';').count() != 3 || !seen.insert(line.to_string()) {
                continue;
            }
            ctx.check("corpus.file", &decode(line), 2);
        }
    }

    // 1. full single-fault sweeps: every request of the initial run x {FB, FA, CB, CA}, then resume
    let n_sweep = if thorough { 4 } else { 2 };
    let mut sweep_sets: Vec<(Cfg, Vec<Chunk>)> = Vec::new();
    for _ in 0..n_sweep {
        let mut r = rng.fork();
        let cfg = gen_cfg(&mut r);
        let chunks = gen_chunks(&mut r, &cfg, &mut ctx.report);
        sweep_sets.push((cfg, chunks));
    }
    {
        // a fixed data set whose first chunk spans two reader batches
        let cfg = Cfg { lo: -5, hi: 77, min_t: -3 * W5 - 1, max_t: 11 * W5 + 2, gen: 2 };
        let chunks = big_dataset(&cfg);
        sweep_sets.push((cfg, chunks));
    }
    for (si, (cfg, chunks)) in sweep_sets.iter().enumerate() {
        let big = chunks.iter().any(|c| c.rows.len() > 8192);
        let base = Case { cfg: cfg.clone(), chunks: chunks.clone(), script: vec![vec![]] };
        let n = ctx.check("sweep.base", &base, 1);
        ctx.report.bump_by("sweep.requests_in_fault_free_run", n as u64);
        for k in 0..n {
            let modes: Vec<Mode> = if big && !thorough { vec![if k % 2 == 0 { Mode::FA } else { Mode::CB }] } else { Mode::ALL.to_vec() };
            for m in modes {
                let case = Case { cfg: cfg.clone(), chunks: chunks.clone(), script: vec![vec![(k, m)]] };
                ctx.report.bump(&format!("fault.{}", m.name()));
                ctx.check(if big { "sweep.single.big" } else { "sweep.single" }, &case, 2);
            }
        }
        // 2. faults inside the resume as well (nested), and several faults in one run
        if !big {
            let n_nested = if thorough { 600 } else { 60 };
            for _ in 0..n_nested {
                let k0 = rng.below(n as u64) as usize;
                let m0 = *rng.pick(&Mode::ALL);
                let mut script: Vec<Plan> = vec![vec![(k0, m0)]];
                let depth = rng.range_usize(1, 3);
                for _ in 0..depth {
                    let mut plan = vec![(rng.below(n as u64 + 2) as usize, *rng.pick(&Mode::ALL))];
                    if rng.chance(1, 4) {
                        plan.push((rng.below(n as u64 + 2) as usize, *rng.pick(&[Mode::FB, Mode::FA])));
                    }
                    script.push(plan);
                }
                // errors in the clean-up deletes are ignored: several faults in one run
                if rng.chance(1, 5) && n > 8 {
                    let a = n - 2 - rng.below(6) as usize;
                    let b = n - 2 - rng.below(6) as usize;
                    script = vec![vec![(a, *rng.pick(&[Mode::FB, Mode::FA])), (b, *rng.pick(&Mode::ALL))]];
                    ctx.report.bump("fault.multi_in_cleanup");
                }
                let case = Case { cfg: cfg.clone(), chunks: chunks.clone(), script };
                ctx.check("nested", &case, 2);
            }
        }
        let _ = si;
    }

    // 3. random data sets with random single / double faults
    let n_random = if thorough { 1500 } else { 120 };
    for _ in 0..n_random {
        let mut r = rng.fork();
        let cfg = gen_cfg(&mut r);
        let chunks = gen_chunks(&mut r, &cfg, &mut ctx.report);
        let nreq_guess = 20 + 8 * chunks.len();
        let mut script: Vec<Plan> = vec![vec![(r.below(nreq_guess as u64) as usize, *r.pick(&Mode::ALL))]];
        if r.chance(1, 2) {
            script.push(vec![(r.below(nreq_guess as u64) as usize, *r.pick(&Mode::ALL))]);
        }
        let case = Case { cfg, chunks, script };
        ctx.check("random", &case, 2);
    }

    let calls = ctx.model.calls;
    ctx.report.notes.push(format!("model calls: {}", calls));
    ctx.report.write(&args.out);
}
