//! Request gate shared by the object-store wrapper (`GateStore`, on top of a
//! `csv_common::sched::SchedStore` handle) and the metadata wrapper
//! (`FaultMeta`): every external request of the splitter gets the next index of
//! the run, a canonical trace token, and — according to the fault plan of the
//! run — proceeds, fails before / after its effect, or "crashes" (the request
//! never returns; the run is then dropped by the harness's time-out, which is a
//! loss of all volatile state) before / after its effect.
use async_trait::async_trait;
use bytes::Bytes;
use cardinalsin::ingester::ChunkMetadata;
use cardinalsin::metadata::{
    CompactionJob, CompactionLease, CompactionLeases, CompactionStatus, MetadataClient, SplitState,
    TimeIndexEntry, TimeRange,
};
use cardinalsin::sharding::{ShardMetadata, ShardState, SplitPhase};
use cardinalsin::Result as CsResult;
use csv_common::sched::{Action, FaultSpec, Hub, SchedStore};
use futures::stream::BoxStream;
use object_store::path::Path;
use object_store::{
    GetOptions, GetResult, ListResult, MultipartUpload, ObjectMeta, ObjectStore, PutMultipartOpts,
    PutOptions, PutPayload, PutResult, Result as OsResult,
};
use std::fmt;
use std::sync::{Arc, Mutex};

#[derive(Clone, Copy, Debug, PartialEq, Eq)]
pub enum Mode {
    /// error returned, nothing happened
    FB,
    /// the request took effect, an error is returned all the same
    FA,
    /// the process dies just before the request
    CB,
    /// the process dies right after the request took effect
    CA,
}

impl Mode {
    pub fn name(self) -> &'static str {
        match self {
            Mode::FB => "FB",
            Mode::FA => "FA",
            Mode::CB => "CB",
            Mode::CA => "CA",
        }
    }
    pub fn parse(s: &str) -> Option<Mode> {
        Some(match s {
            "FB" => Mode::FB,
            "FA" => Mode::FA,
            "CB" => Mode::CB,
            "CA" => Mode::CA,
            _ => return None,
        })
    }
    pub const ALL: [Mode; 4] = [Mode::FB, Mode::FA, Mode::CB, Mode::CA];
}

#[derive(Default)]
pub struct GateInner {
    pub n: usize,
    pub plan: Vec<(usize, Mode)>,
    pub trace: Vec<String>,
    pub crashed: bool,
    /// set once `complete_split` took effect (in this or an earlier run of the case)
    pub cutover_effective: bool,
    /// old-shard removals requested while the cut-over had not completed
    pub early_removals: Vec<String>,
    pub new_shards: Option<(String, String)>,
}

pub struct Gate {
    pub old: String,
    pub inner: Mutex<GateInner>,
}

impl Gate {
    pub fn new(old: &str) -> Arc<Gate> {
        Arc::new(Gate { old: old.to_string(), inner: Mutex::new(GateInner::default()) })
    }
    pub fn begin_run(&self, plan: Vec<(usize, Mode)>) {
        let mut g = self.inner.lock().unwrap();
        g.n = 0;
        g.plan = plan;
        g.trace.clear();
        g.crashed = false;
    }
    fn next(&self, token: String) -> Option<Mode> {
        let mut g = self.inner.lock().unwrap();
        let idx = g.n;
        g.n += 1;
        g.trace.push(token);
        let m = g.plan.iter().find(|(k, _)| *k == idx).map(|(_, m)| *m);
        if matches!(m, Some(Mode::CB) | Some(Mode::CA)) {
            g.crashed = true;
        }
        m
    }
    pub fn progress_path(&self) -> String {
        format!("metadata/split-progress/{}.json", self.old)
    }
    pub fn src_path(&self, idx: u32) -> String {
        format!("{}/chunk_{:04}.parquet", self.old, idx)
    }
    fn side_of(&self, shard: &str) -> char {
        if shard == self.old {
            return 'o';
        }
        let g = self.inner.lock().unwrap();
        match &g.new_shards {
            Some((a, _)) if a == shard => 'a',
            Some((_, b)) if b == shard => 'b',
            _ => '?',
        }
    }
    /// canonical name of a chunk path: `s<i>` for a source chunk of the old
    /// shard, `<side><i>.<batch>` for a back-filled chunk of a new shard
    pub fn chunk_name(&self, path: &str) -> String {
        if let Some(rest) = path.strip_prefix(&format!("{}/chunk_", self.old)) {
            if let Some(num) = rest.strip_suffix(".parquet") {
                if let Ok(i) = num.parse::<u32>() {
                    return format!("s{}", i);
                }
            }
        }
        if let Some((shard, file)) = path.split_once('/') {
            if let Some(rest) = file.strip_prefix("backfill_").and_then(|r| r.strip_suffix(".parquet")) {
                let parts: Vec<&str> = rest.split('_').collect();
                if parts.len() == 3 {
                    let src = hex_decode(parts[0]);
                    let srcname = self.chunk_name(&src);
                    let side = self.side_of(shard);
                    let part = parts[2];
                    let sidetxt = if part.len() == 1 && part.chars().next() == Some(side) { side.to_string() } else { format!("{}!{}", side, part) };
                    if let Some(i) = srcname.strip_prefix('s') {
                        return format!("{}{}.{}", sidetxt, i, parts[1]);
                    }
                }
            }
        }
        format!("?{}", path)
    }
}

fn hex_decode(s: &str) -> String {
    let b = s.as_bytes();
    let mut out = Vec::new();
    let mut i = 0;
    while i + 1 < b.len() {
        let h = (b[i] as char).to_digit(16).unwrap_or(0) as u8;
        let l = (b[i + 1] as char).to_digit(16).unwrap_or(0) as u8;
        out.push(h * 16 + l);
        i += 2;
    }
    String::from_utf8_lossy(&out).to_string()
}

async fn hang() -> ! {
    std::future::pending::<()>().await;
    unreachable!()
}

pub fn phase_letter(p: Option<SplitPhase>) -> &'static str {
    match p {
        None => "-",
        Some(SplitPhase::Preparation) => "P",
        Some(SplitPhase::DualWrite) => "D",
        Some(SplitPhase::Backfill) => "B",
        Some(SplitPhase::Cutover) => "C",
        Some(SplitPhase::Cleanup) => "L",
    }
}

pub fn f64_token(x: f64) -> String {
    format!("{:016x}", x.to_bits())
}

pub fn key_i64(k: &[u8]) -> String {
    match <[u8; 8]>::try_from(k) {
        Ok(a) => i64::from_be_bytes(a).to_string(),
        Err(_) => format!("?{:?}", k),
    }
}

pub fn state_letter(s: &ShardState) -> &'static str {
    match s {
        ShardState::Active => "A",
        ShardState::Splitting { .. } => "S",
        ShardState::PendingDeletion { .. } => "P",
    }
}

/// canonical text of a progress object: `<phase>,<a><b><o>,<done>,<total>`
pub fn progress_text(gate: &Gate, bytes: &[u8]) -> String {
    let v: serde_json::Value = match serde_json::from_slice(bytes) {
        Ok(v) => v,
        Err(_) => return "CORRUPT".into(),
    };
    let ph = match v["completed_phase"].as_str() {
        None => "-",
        Some("Preparation") => "P",
        Some("DualWrite") => "D",
        Some("Backfill") => "B",
        Some("Cutover") => "C",
        Some("Cleanup") => "L",
        Some(_) => "?",
    };
    let flag = |k: &str| if v[k].as_bool().unwrap_or(false) { "1" } else { "0" };
    let mut done: Vec<String> = v["backfilled_chunks"]
        .as_array()
        .map(|a| a.iter().map(|p| gate.chunk_name(p.as_str().unwrap_or(""))).collect())
        .unwrap_or_default();
    done.sort_by_key(|n| n.trim_start_matches('s').parse::<u64>().unwrap_or(u64::MAX));
    let pt = v["split_point"]
        .as_array()
        .map(|a| a.iter().map(|b| b.as_u64().unwrap_or(0) as u8).collect::<Vec<u8>>())
        .unwrap_or_default();
    format!(
        "{},{}{}{},{},{},{}",
        ph,
        flag("shard_a_created"),
        flag("shard_b_created"),
        flag("old_shard_deactivated"),
        done.join("+"),
        v["backfill_total_chunks"].as_u64().unwrap_or(0),
        key_i64(&pt)
    )
}

// ------------------------------------------------------------ GateStore ----
pub struct GateStore {
    pub gate: Arc<Gate>,
    pub hub: Arc<Hub>,
    pub inner: Arc<SchedStore>,
}

impl fmt::Debug for GateStore {
    fn fmt(&self, f: &mut fmt::Formatter<'_>) -> fmt::Result {
        write!(f, "GateStore")
    }
}
impl fmt::Display for GateStore {
    fn fmt(&self, f: &mut fmt::Formatter<'_>) -> fmt::Result {
        write!(f, "GateStore")
    }
}

fn payload_bytes(p: &PutPayload) -> Bytes {
    let mut v = Vec::with_capacity(p.content_length());
    for b in p.iter() {
        v.extend_from_slice(b);
    }
    Bytes::from(v)
}

impl GateStore {
    /// arms the SchedStore fault plan for exactly the next request of the handle
    fn arm(&self, mode: Option<Mode>) {
        let faults = match mode {
            Some(Mode::FB) => vec![FaultSpec { index: 0, action: Action::FailBefore }],
            Some(Mode::FA) => vec![FaultSpec { index: 0, action: Action::FailAfter }],
            _ => vec![],
        };
        self.hub.set_faults(faults, vec![]);
    }
}

#[async_trait]
impl ObjectStore for GateStore {
    async fn put_opts(&self, location: &Path, payload: PutPayload, opts: PutOptions) -> OsResult<PutResult> {
        let p = location.to_string();
        let token = if p == self.gate.progress_path() {
            let bytes = payload_bytes(&payload);
            // remember the new shard ids of this split attempt
            if let Ok(v) = serde_json::from_slice::<serde_json::Value>(&bytes) {
                if let Some(a) = v["new_shards"].as_array() {
                    if a.len() == 2 {
                        let mut g = self.gate.inner.lock().unwrap();
                        if g.new_shards.is_none() {
                            g.new_shards = Some((a[0].as_str().unwrap_or("").to_string(), a[1].as_str().unwrap_or("").to_string()));
                        }
                    }
                }
            }
            format!("Pp({})", progress_text(&self.gate, &bytes))
        } else {
            format!("Op{}", self.gate.chunk_name(&p))
        };
        let mode = self.gate.next(token);
        if mode == Some(Mode::CB) {
            hang().await;
        }
        self.arm(mode);
        let r = self.inner.put_opts(location, payload, opts).await;
        self.arm(None);
        if mode == Some(Mode::CA) {
            hang().await;
        }
        r
    }

    async fn put_multipart_opts(&self, location: &Path, opts: PutMultipartOpts) -> OsResult<Box<dyn MultipartUpload>> {
        self.inner.put_multipart_opts(location, opts).await
    }

    async fn get_opts(&self, location: &Path, options: GetOptions) -> OsResult<GetResult> {
        let p = location.to_string();
        let token = if p == self.gate.progress_path() { "Pg".to_string() } else { format!("Og{}", self.gate.chunk_name(&p)) };
        let mode = self.gate.next(token);
        if mode == Some(Mode::CB) {
            hang().await;
        }
        self.arm(mode);
        let r = self.inner.get_opts(location, options).await;
        self.arm(None);
        if mode == Some(Mode::CA) {
            hang().await;
        }
        r
    }

    async fn delete(&self, location: &Path) -> OsResult<()> {
        let p = location.to_string();
        let token = if p == self.gate.progress_path() {
            "Pd".to_string()
        } else {
            let name = self.gate.chunk_name(&p);
            if name.starts_with('s') {
                let mut g = self.gate.inner.lock().unwrap();
                if !g.cutover_effective {
                    g.early_removals.push(format!("object DELETE {} before the cut-over completed", p));
                }
                "Od".to_string()
            } else {
                format!("Od{}", name)
            }
        };
        let mode = self.gate.next(token);
        if mode == Some(Mode::CB) {
            hang().await;
        }
        self.arm(mode);
        let r = self.inner.delete(location).await;
        self.arm(None);
        if mode == Some(Mode::CA) {
            hang().await;
        }
        r
    }

    fn list(&self, prefix: Option<&Path>) -> BoxStream<'_, OsResult<ObjectMeta>> {
        self.inner.list(prefix)
    }
    async fn list_with_delimiter(&self, prefix: Option<&Path>) -> OsResult<ListResult> {
        self.inner.list_with_delimiter(prefix).await
    }
    async fn copy(&self, from: &Path, to: &Path) -> OsResult<()> {
        self.inner.copy(from, to).await
    }
    async fn copy_if_not_exists(&self, from: &Path, to: &Path) -> OsResult<()> {
        self.inner.copy_if_not_exists(from, to).await
    }
}

// ------------------------------------------------------------ FaultMeta ----
/// A `MetadataClient` that delegates every call; the calls the splitter uses
/// go through the gate first.
pub struct FaultMeta {
    pub gate: Arc<Gate>,
    pub inner: Arc<dyn MetadataClient>,
}

fn injected(token: &str, when: &str) -> cardinalsin::Error {
    cardinalsin::Error::Metadata(format!("injected fault ({}) on {}", when, token))
}

macro_rules! gated {
    ($self:ident, $token:expr, $call:expr) => {{
        let token: String = $token;
        let mode = $self.gate.next(token.clone());
        match mode {
            Some(Mode::CB) => hang().await,
            Some(Mode::FB) => return Err(injected(&token, "before effect")),
            _ => {}
        }
        let r = $call.await;
        match mode {
            Some(Mode::CA) => hang().await,
            Some(Mode::FA) => Err(injected(&token, "after effect")),
            _ => r,
        }
    }};
}

#[async_trait]
impl MetadataClient for FaultMeta {
    async fn register_chunk(&self, path: &str, metadata: &ChunkMetadata) -> CsResult<()> {
        let token = format!(
            "Mr{}({},{},{})",
            self.gate.chunk_name(path),
            metadata.min_timestamp,
            metadata.max_timestamp,
            metadata.row_count
        );
        gated!(self, token, self.inner.register_chunk(path, metadata))
    }
    async fn get_chunks(&self, range: TimeRange) -> CsResult<Vec<TimeIndexEntry>> {
        self.inner.get_chunks(range).await
    }
    async fn get_chunk(&self, path: &str) -> CsResult<Option<ChunkMetadata>> {
        self.inner.get_chunk(path).await
    }
    async fn delete_chunk(&self, path: &str) -> CsResult<()> {
        let name = self.gate.chunk_name(path);
        let token = if name.starts_with('s') {
            let mut g = self.gate.inner.lock().unwrap();
            if !g.cutover_effective {
                g.early_removals.push(format!("delete_chunk {} before the cut-over completed", path));
            }
            "Md".to_string()
        } else {
            format!("Md{}", name)
        };
        gated!(self, token, self.inner.delete_chunk(path))
    }
    async fn list_chunks(&self) -> CsResult<Vec<TimeIndexEntry>> {
        self.inner.list_chunks().await
    }
    async fn get_l0_candidates(&self, min_count: usize) -> CsResult<Vec<Vec<String>>> {
        self.inner.get_l0_candidates(min_count).await
    }
    async fn get_level_candidates(&self, level: usize, target_size: usize) -> CsResult<Vec<Vec<String>>> {
        self.inner.get_level_candidates(level, target_size).await
    }
    async fn create_compaction_job(&self, job: CompactionJob) -> CsResult<()> {
        self.inner.create_compaction_job(job).await
    }
    async fn complete_compaction(&self, source_chunks: &[String], target_chunk: &str) -> CsResult<()> {
        self.inner.complete_compaction(source_chunks, target_chunk).await
    }
    async fn update_compaction_status(&self, job_id: &str, status: CompactionStatus) -> CsResult<()> {
        self.inner.update_compaction_status(job_id, status).await
    }
    async fn get_pending_compaction_jobs(&self) -> CsResult<Vec<CompactionJob>> {
        self.inner.get_pending_compaction_jobs().await
    }
    async fn start_split(&self, old_shard: &str, new_shards: Vec<String>, split_point: Vec<u8>) -> CsResult<()> {
        if new_shards.len() == 2 {
            let mut g = self.gate.inner.lock().unwrap();
            if g.new_shards.is_none() {
                g.new_shards = Some((new_shards[0].clone(), new_shards[1].clone()));
            }
        }
        let token = format!("Ms({})", key_i64(&split_point));
        gated!(self, token, self.inner.start_split(old_shard, new_shards, split_point))
    }
    async fn get_split_state(&self, shard_id: &str) -> CsResult<Option<SplitState>> {
        gated!(self, "Mq".to_string(), self.inner.get_split_state(shard_id))
    }
    async fn update_split_progress(&self, shard_id: &str, progress: f64, phase: SplitPhase) -> CsResult<()> {
        let token = format!("Mu({},{})", phase_letter(Some(phase)), f64_token(progress));
        gated!(self, token, self.inner.update_split_progress(shard_id, progress, phase))
    }
    async fn complete_split(&self, old_shard: &str) -> CsResult<()> {
        let token = "Mx".to_string();
        let mode = self.gate.next(token.clone());
        match mode {
            Some(Mode::CB) => hang().await,
            Some(Mode::FB) => return Err(injected(&token, "before effect")),
            _ => {}
        }
        let r = self.inner.complete_split(old_shard).await;
        if r.is_ok() {
            self.gate.inner.lock().unwrap().cutover_effective = true;
        }
        match mode {
            Some(Mode::CA) => hang().await,
            Some(Mode::FA) => Err(injected(&token, "after effect")),
            _ => r,
        }
    }
    async fn get_chunks_for_shard(&self, shard_id: &str) -> CsResult<Vec<TimeIndexEntry>> {
        let token = format!("Mc{}", self.gate.side_of(shard_id));
        // The trait leaves the order of the answer open (hash-map order in both
        // backends).  Clean-up ignores delete errors, so which chunk a fault hits
        // depends on that order: the wrapper fixes it (path order, the model's
        // order); every order is a legitimate behaviour of the metadata client.
        gated!(self, token, async {
            self.inner.get_chunks_for_shard(shard_id).await.map(|mut v| {
                v.sort_by(|a, b| a.chunk_path.cmp(&b.chunk_path));
                v
            })
        })
    }
    async fn get_shard_metadata(&self, shard_id: &str) -> CsResult<Option<ShardMetadata>> {
        let token = format!("Mh{}", self.gate.side_of(shard_id));
        gated!(self, token, self.inner.get_shard_metadata(shard_id))
    }
    async fn update_shard_metadata(&self, shard_id: &str, metadata: &ShardMetadata, expected_generation: u64) -> CsResult<()> {
        let token = format!(
            "Mw{}({},{},{},{},{},{})",
            self.gate.side_of(shard_id),
            expected_generation,
            key_i64(&metadata.key_range.0),
            key_i64(&metadata.key_range.1),
            state_letter(&metadata.state),
            metadata.min_time,
            metadata.max_time
        );
        gated!(self, token, self.inner.update_shard_metadata(shard_id, metadata, expected_generation))
    }
    async fn acquire_lease(&self, node_id: &str, chunks: &[String], level: u32) -> CsResult<CompactionLease> {
        self.inner.acquire_lease(node_id, chunks, level).await
    }
    async fn complete_lease(&self, lease_id: &str) -> CsResult<()> {
        self.inner.complete_lease(lease_id).await
    }
    async fn fail_lease(&self, lease_id: &str) -> CsResult<()> {
        self.inner.fail_lease(lease_id).await
    }
    async fn renew_lease(&self, lease_id: &str) -> CsResult<()> {
        self.inner.renew_lease(lease_id).await
    }
    async fn load_leases(&self) -> CsResult<CompactionLeases> {
        self.inner.load_leases().await
    }
    async fn scavenge_leases(&self) -> CsResult<usize> {
        self.inner.scavenge_leases().await
    }
    async fn has_active_split(&self) -> CsResult<bool> {
        self.inner.has_active_split().await
    }
}
