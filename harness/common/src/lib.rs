//! csv-common — shared pieces of the correspondence harness:
//! deterministic PRNG, the model-runner child process, delta-debugging shrinker,
//! run report (feeds evidence/<id>.json), CLI parsing.
pub mod sched;

use serde_json::{json, Value};
use std::collections::{BTreeMap, HashSet};
use std::hash::{Hash, Hasher};
use std::io::{BufRead, BufReader, Write};
use std::process::{Child, ChildStdin, ChildStdout, Command, Stdio};

// ---------------------------------------------------------------- PRNG ----
/// splitmix64-seeded xoshiro256**: every random choice of a run derives from
/// the one seed, so disagreements replay exactly.
#[derive(Clone)]
pub struct Rng {
    s: [u64; 4],
}

impl Rng {
    pub fn new(seed: u64) -> Self {
        let mut z = seed.wrapping_add(0x9E37_79B9_7F4A_7C15);
        let mut next = || {
            z = z.wrapping_add(0x9E37_79B9_7F4A_7C15);
            let mut x = z;
            x = (x ^ (x >> 30)).wrapping_mul(0xBF58_476D_1CE4_E5B9);
            x = (x ^ (x >> 27)).wrapping_mul(0x94D0_49BB_1331_11EB);
            x ^ (x >> 31)
        };
        Rng { s: [next(), next(), next(), next()] }
    }
    pub fn next_u64(&mut self) -> u64 {
        let r = self.s[1].wrapping_mul(5).rotate_left(7).wrapping_mul(9);
        let t = self.s[1] << 17;
        self.s[2] ^= self.s[0];
        self.s[3] ^= self.s[1];
        self.s[1] ^= self.s[2];
        self.s[0] ^= self.s[3];
        self.s[2] ^= t;
        self.s[3] = self.s[3].rotate_left(45);
        r
    }
    /// uniform in [0, n)
    pub fn below(&mut self, n: u64) -> u64 {
        if n == 0 { 0 } else { self.next_u64() % n }
    }
    /// uniform in [lo, hi] (inclusive)
    pub fn range_i64(&mut self, lo: i64, hi: i64) -> i64 {
        let span = (hi as i128 - lo as i128 + 1) as u128;
        (lo as i128 + (self.next_u64() as u128 % span) as i128) as i64
    }
    pub fn range_usize(&mut self, lo: usize, hi: usize) -> usize {
        lo + self.below((hi - lo + 1) as u64) as usize
    }
    pub fn chance(&mut self, num: u64, den: u64) -> bool {
        self.below(den) < num
    }
    pub fn pick<'a, T>(&mut self, xs: &'a [T]) -> &'a T {
        &xs[self.below(xs.len() as u64) as usize]
    }
    pub fn fork(&mut self) -> Rng {
        Rng::new(self.next_u64())
    }
}

// ------------------------------------------------------- model process ----
/// The extracted Coq model, run as a line-oriented server (one case per line).
pub struct Model {
    proc: Option<(Child, ChildStdin, BufReader<ChildStdout>)>,
    pub path: String,
    pub calls: u64,
}

impl Model {
    /// `path` empty = no model available (its build broke): `ask` answers
    /// "NO-MODEL" and harnesses skip the comparison, running their oracle only.
    pub fn spawn(path: &str) -> Model {
        if path.is_empty() {
            return Model { proc: None, path: String::new(), calls: 0 };
        }
        let mut child = Command::new(path)
            .stdin(Stdio::piped())
            .stdout(Stdio::piped())
            .spawn()
            .unwrap_or_else(|e| panic!("cannot start model runner {}: {}", path, e));
        let stdin = child.stdin.take().unwrap();
        let stdout = BufReader::new(child.stdout.take().unwrap());
        Model { proc: Some((child, stdin, stdout)), path: path.to_string(), calls: 0 }
    }
    pub fn is_null(&self) -> bool {
        self.proc.is_none()
    }
    pub fn ask(&mut self, line: &str) -> String {
        assert!(!line.contains('\n'));
        self.calls += 1;
        let Some((child, stdin, stdout)) = self.proc.as_mut() else {
            return "NO-MODEL".to_string();
        };
        let mut out = String::new();
        let ok = writeln!(stdin, "{}", line).is_ok() && stdin.flush().is_ok();
        let n = if ok { stdout.read_line(&mut out).unwrap_or(0) } else { 0 };
        if n == 0 {
            // the model process died (stack overflow, uncaught exception): restart it
            let _ = child.kill();
            let _ = child.wait();
            let path = self.path.clone();
            let calls = self.calls;
            *self = Model::spawn(&path);
            self.calls = calls;
            return "MODEL-DIED".to_string();
        }
        out.trim_end().to_string()
    }
    /// true when `impl_out` and the model's answer differ (never when no model is available)
    pub fn differs(&mut self, line: &str, impl_out: &str) -> (bool, String) {
        let m = self.ask(line);
        (!self.is_null() && m != impl_out, m)
    }
}

impl Drop for Model {
    fn drop(&mut self) {
        if let Some((child, _, _)) = self.proc.as_mut() {
            let _ = child.kill();
            let _ = child.wait();
        }
    }
}

// ------------------------------------------------------------ shrinker ----
/// Delta debugging over a sequence: returns a (locally) minimal subsequence on
/// which `fails` still holds.  `fails(input)` must be true on entry.
pub fn ddmin<T: Clone>(input: &[T], fails: &mut dyn FnMut(&[T]) -> bool) -> Vec<T> {
    let mut cur: Vec<T> = input.to_vec();
    let mut n = 2usize;
    while cur.len() >= 2 {
        let chunk = (cur.len() + n - 1) / n;
        let mut reduced = false;
        let mut i = 0;
        while i * chunk < cur.len() {
            let lo = i * chunk;
            let hi = (lo + chunk).min(cur.len());
            let mut cand = Vec::with_capacity(cur.len() - (hi - lo));
            cand.extend_from_slice(&cur[..lo]);
            cand.extend_from_slice(&cur[hi..]);
            if !cand.is_empty() && fails(&cand) {
                cur = cand;
                n = (n - 1).max(2);
                reduced = true;
                break;
            }
            i += 1;
        }
        if !reduced {
            if n >= cur.len() {
                break;
            }
            n = (n * 2).min(cur.len());
        }
    }
    cur
}

// --------------------------------------------------------------- args -----
pub struct Args {
    pub tier: String,
    pub seed: u64,
    pub model: String,
    pub out: String,
    pub replay: Option<String>,
    pub extra: BTreeMap<String, String>,
}

impl Args {
    pub fn parse() -> Args {
        let mut a = Args {
            tier: "quick".into(),
            seed: 1,
            model: String::new(),
            out: String::new(),
            replay: None,
            extra: BTreeMap::new(),
        };
        let v: Vec<String> = std::env::args().skip(1).collect();
        let mut i = 0;
        while i < v.len() {
            let k = v[i].clone();
            let val = v.get(i + 1).cloned().unwrap_or_default();
            match k.as_str() {
                "--tier" => a.tier = val,
                "--seed" => a.seed = val.parse().unwrap_or(1),
                "--model" => a.model = val,
                "--out" => a.out = val,
                "--replay" => a.replay = Some(val),
                _ => {
                    a.extra.insert(k.trim_start_matches("--").to_string(), val);
                }
            }
            i += 2;
        }
        a
    }
    pub fn thorough(&self) -> bool {
        self.tier == "thorough"
    }
    pub fn get(&self, k: &str) -> Option<&str> {
        self.extra.get(k).map(|s| s.as_str())
    }
}

// -------------------------------------------------------------- report ----
/// What a harness run found; serialised to the `--out` file and turned into
/// evidence / VIOLATION lines by the `check` driver.
pub struct Report {
    pub property: String,
    pub evaluations: u64,
    pub impl_runs: u64,
    distinct: HashSet<u64>,
    pub histogram: BTreeMap<String, u64>,
    pub samples: Vec<Value>,
    pub max_samples: usize,
    /// model and implementation differ (each entry: case, impl, model, shrunk case, oracle verdict)
    pub disagreements: Vec<Value>,
    /// the implementation violates the property's own observable predicate
    pub oracle_violations: Vec<Value>,
    pub notes: Vec<String>,
    pub exhaustive: bool,
}

impl Report {
    pub fn new(property: &str) -> Report {
        Report {
            property: property.to_string(),
            evaluations: 0,
            impl_runs: 0,
            distinct: HashSet::new(),
            histogram: BTreeMap::new(),
            samples: Vec::new(),
            max_samples: 5,
            disagreements: Vec::new(),
            oracle_violations: Vec::new(),
            notes: Vec::new(),
            exhaustive: false,
        }
    }
    /// Count one generated case; `nontrivial_key` is Some(canonical text) when
    /// the case is non-trivial by the property's rule (distinct ones are counted).
    pub fn case(&mut self, nontrivial_key: Option<&str>) {
        self.evaluations += 1;
        if let Some(k) = nontrivial_key {
            let mut h = std::collections::hash_map::DefaultHasher::new();
            k.hash(&mut h);
            self.distinct.insert(h.finish());
        }
    }
    pub fn bump(&mut self, key: &str) {
        *self.histogram.entry(key.to_string()).or_insert(0) += 1;
    }
    pub fn bump_by(&mut self, key: &str, n: u64) {
        *self.histogram.entry(key.to_string()).or_insert(0) += n;
    }
    pub fn sample(&mut self, v: Value) {
        if self.samples.len() < self.max_samples {
            self.samples.push(v);
        }
    }
    pub fn disagreement(&mut self, v: Value) {
        if self.disagreements.len() < 20 {
            self.disagreements.push(v);
        }
    }
    /// `class` = name of the known-finding class the failing case belongs to
    /// (computed by an executable classifier), or "" when it matches none.
    pub fn oracle_violation(&mut self, class: &str, what: &str, case: Value) {
        if self.oracle_violations.len() < 50 {
            self.oracle_violations.push(json!({"class": class, "what": what, "case": case}));
        }
    }
    pub fn distinct_nontrivial(&self) -> u64 {
        self.distinct.len() as u64
    }
    pub fn write(&self, path: &str) {
        let v = json!({
            "property": self.property,
            "evaluations": self.evaluations,
            "impl_runs": self.impl_runs,
            "distinct_nontrivial": self.distinct_nontrivial(),
            "histogram": self.histogram,
            "samples": self.samples,
            "disagreements": self.disagreements,
            "oracle_violations": self.oracle_violations,
            "notes": self.notes,
            "exhaustive": self.exhaustive,
        });
        if path.is_empty() {
            println!("{}", serde_json::to_string_pretty(&v).unwrap());
        } else {
            std::fs::write(path, serde_json::to_string_pretty(&v).unwrap()).expect("write report");
        }
    }
}

/// Run a closure catching panics; returns Err(message) on panic.
pub fn catch<T>(f: impl FnOnce() -> T + std::panic::UnwindSafe) -> Result<T, String> {
    std::panic::catch_unwind(f).map_err(|e| {
        if let Some(s) = e.downcast_ref::<&str>() {
            s.to_string()
        } else if let Some(s) = e.downcast_ref::<String>() {
            s.clone()
        } else {
            "panic".to_string()
        }
    })
}

/// Silence the default panic hook output (the harness reports panics itself).
pub fn quiet_panics() {
    std::panic::set_hook(Box::new(|_| {}));
}
