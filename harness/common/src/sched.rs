//! SchedStore — an ObjectStore wrapper that gives the harness control at the
//! granularity of individual object-store requests:
//!   * every request of a *controlled* client is announced to a controller and
//!     waits for its permit (deterministic interleavings on a current-thread
//!     runtime with paused time);
//!   * a permit (or a counting fault plan) can make the request fail *before*
//!     it took effect or *after* it took effect;
//!   * every successful write to a watched path is recorded (all versions).
use async_trait::async_trait;
use bytes::Bytes;
use futures::stream::BoxStream;
use object_store::path::Path;
use object_store::{
    GetOptions, GetResult, ListResult, MultipartUpload, ObjectMeta, ObjectStore, PutMode,
    PutMultipartOpts, PutOptions, PutPayload, PutResult, Result as OsResult,
};
use std::collections::{BTreeMap, VecDeque};
use std::fmt;
use std::sync::{Arc, Mutex};
use tokio::sync::{mpsc, oneshot};

#[derive(Clone, Copy, Debug, PartialEq, Eq)]
pub enum Action {
    Proceed,
    /// return an error, the store is untouched
    FailBefore,
    /// perform the request, then return an error all the same
    FailAfter,
}

#[derive(Clone, Debug, PartialEq, Eq)]
pub struct ReqInfo {
    pub client: usize,
    pub verb: &'static str, // GET PUT DELETE LIST HEAD COPY
    pub path: String,
    pub mode: String, // for PUT: create / update / overwrite
}

pub enum Event {
    Request(ReqInfo, oneshot::Sender<Action>),
    /// a harness-level message from a client task (op finished, all done ...)
    Note(usize, String),
}

#[derive(Clone, Debug)]
pub struct LogEntry {
    pub seq: u64,
    pub info: ReqInfo,
    pub action: Action,
    pub ok: bool,
}

#[derive(Clone, Copy, Debug)]
pub struct FaultSpec {
    /// 0-based index among the requests that match `verb_filter`/`path_filter`
    pub index: u64,
    pub action: Action,
}

pub struct Hub {
    pub inner: Arc<dyn ObjectStore>,
    tx: Mutex<Option<mpsc::UnboundedSender<Event>>>,
    controlled: Mutex<Vec<bool>>,
    pub log: Mutex<Vec<LogEntry>>,
    seq: Mutex<u64>,
    /// watched path substring -> recorded versions (bytes of each successful PUT, None for DELETE)
    watch: Mutex<Vec<String>>,
    pub versions: Mutex<BTreeMap<String, Vec<Option<Bytes>>>>,
    /// counting fault plan for uncontrolled runs
    faults: Mutex<Vec<FaultSpec>>,
    fault_counter: Mutex<u64>,
    /// only requests whose path contains one of these substrings count for the fault plan (empty = all)
    fault_path_filter: Mutex<Vec<String>>,
}

impl Hub {
    pub fn new(inner: Arc<dyn ObjectStore>) -> Arc<Hub> {
        Arc::new(Hub {
            inner,
            tx: Mutex::new(None),
            controlled: Mutex::new(Vec::new()),
            log: Mutex::new(Vec::new()),
            seq: Mutex::new(0),
            watch: Mutex::new(Vec::new()),
            versions: Mutex::new(BTreeMap::new()),
            faults: Mutex::new(Vec::new()),
            fault_counter: Mutex::new(0),
            fault_path_filter: Mutex::new(Vec::new()),
        })
    }
    /// A store handle whose requests are attributed to `client`.
    pub fn client(self: &Arc<Hub>, client: usize) -> Arc<SchedStore> {
        Arc::new(SchedStore { hub: Arc::clone(self), client })
    }
    /// Attach a controller; requests of the listed clients wait for permits.
    pub fn attach(self: &Arc<Hub>, clients: &[usize]) -> Controller {
        let (tx, rx) = mpsc::unbounded_channel();
        *self.tx.lock().unwrap() = Some(tx);
        let mut c = self.controlled.lock().unwrap();
        for &k in clients {
            if c.len() <= k {
                c.resize(k + 1, false);
            }
            c[k] = true;
        }
        Controller { rx, pending: BTreeMap::new(), notes: VecDeque::new() }
    }
    pub fn detach(&self) {
        *self.tx.lock().unwrap() = None;
        self.controlled.lock().unwrap().clear();
    }
    /// Sender for harness-level notes (op done etc.) from client tasks.
    pub fn note(&self, client: usize, msg: String) {
        if let Some(tx) = self.tx.lock().unwrap().as_ref() {
            let _ = tx.send(Event::Note(client, msg));
        }
    }
    pub fn watch(&self, path_substr: &str) {
        self.watch.lock().unwrap().push(path_substr.to_string());
    }
    pub fn set_faults(&self, faults: Vec<FaultSpec>, path_filter: Vec<String>) {
        *self.faults.lock().unwrap() = faults;
        *self.fault_counter.lock().unwrap() = 0;
        *self.fault_path_filter.lock().unwrap() = path_filter;
    }
    pub fn clear_faults(&self) {
        self.faults.lock().unwrap().clear();
    }
    pub fn requests_counted(&self) -> u64 {
        *self.fault_counter.lock().unwrap()
    }
    pub fn take_log(&self) -> Vec<LogEntry> {
        std::mem::take(&mut *self.log.lock().unwrap())
    }
    pub fn versions_of(&self, path_substr: &str) -> Vec<Option<Bytes>> {
        let v = self.versions.lock().unwrap();
        for (k, vs) in v.iter() {
            if k.contains(path_substr) {
                return vs.clone();
            }
        }
        Vec::new()
    }

    fn is_controlled(&self, client: usize) -> bool {
        self.controlled.lock().unwrap().get(client).copied().unwrap_or(false)
    }

    async fn gate(&self, info: &ReqInfo) -> Action {
        if self.is_controlled(info.client) {
            let tx = self.tx.lock().unwrap().clone();
            if let Some(tx) = tx {
                let (otx, orx) = oneshot::channel();
                if tx.send(Event::Request(info.clone(), otx)).is_ok() {
                    // a dropped controller lets everything proceed
                    return orx.await.unwrap_or(Action::Proceed);
                }
            }
            Action::Proceed
        } else {
            // counting fault plan
            let filt = self.fault_path_filter.lock().unwrap();
            let counts = filt.is_empty() || filt.iter().any(|f| info.path.contains(f.as_str()));
            drop(filt);
            if !counts {
                return Action::Proceed;
            }
            let mut n = self.fault_counter.lock().unwrap();
            let idx = *n;
            *n += 1;
            drop(n);
            for f in self.faults.lock().unwrap().iter() {
                if f.index == idx {
                    return f.action;
                }
            }
            Action::Proceed
        }
    }

    fn record(&self, info: &ReqInfo, action: Action, ok: bool) {
        let mut s = self.seq.lock().unwrap();
        let seq = *s;
        *s += 1;
        drop(s);
        self.log.lock().unwrap().push(LogEntry { seq, info: info.clone(), action, ok });
    }

    fn record_version(&self, path: &str, bytes: Option<Bytes>) {
        let w = self.watch.lock().unwrap();
        if w.iter().any(|s| path.contains(s.as_str())) {
            self.versions.lock().unwrap().entry(path.to_string()).or_default().push(bytes);
        }
    }
}

fn injected(info: &ReqInfo, when: &str) -> object_store::Error {
    object_store::Error::Generic {
        store: "SchedStore",
        source: format!("injected fault ({}) on {} {}", when, info.verb, info.path).into(),
    }
}

pub struct SchedStore {
    pub hub: Arc<Hub>,
    pub client: usize,
}

impl fmt::Debug for SchedStore {
    fn fmt(&self, f: &mut fmt::Formatter<'_>) -> fmt::Result {
        write!(f, "SchedStore(client={})", self.client)
    }
}
impl fmt::Display for SchedStore {
    fn fmt(&self, f: &mut fmt::Formatter<'_>) -> fmt::Result {
        write!(f, "SchedStore(client={})", self.client)
    }
}

fn payload_bytes(p: &PutPayload) -> Bytes {
    let mut v = Vec::with_capacity(p.content_length());
    for b in p.iter() {
        v.extend_from_slice(b);
    }
    Bytes::from(v)
}

#[async_trait]
impl ObjectStore for SchedStore {
    async fn put_opts(&self, location: &Path, payload: PutPayload, opts: PutOptions) -> OsResult<PutResult> {
        let mode = match &opts.mode {
            PutMode::Create => "create".to_string(),
            PutMode::Update(_) => "update".to_string(),
            PutMode::Overwrite => "overwrite".to_string(),
        };
        let info = ReqInfo { client: self.client, verb: "PUT", path: location.to_string(), mode };
        let action = self.hub.gate(&info).await;
        if action == Action::FailBefore {
            self.hub.record(&info, action, false);
            return Err(injected(&info, "before effect"));
        }
        let bytes = payload_bytes(&payload);
        let r = self.hub.inner.put_opts(location, payload, opts).await;
        if r.is_ok() {
            self.hub.record_version(&info.path, Some(bytes));
        }
        self.hub.record(&info, action, r.is_ok());
        if action == Action::FailAfter {
            return Err(injected(&info, "after effect"));
        }
        r
    }

    async fn put_multipart_opts(&self, location: &Path, opts: PutMultipartOpts) -> OsResult<Box<dyn MultipartUpload>> {
        self.hub.inner.put_multipart_opts(location, opts).await
    }

    async fn get_opts(&self, location: &Path, options: GetOptions) -> OsResult<GetResult> {
        let verb = if options.head { "HEAD" } else { "GET" };
        let info = ReqInfo { client: self.client, verb, path: location.to_string(), mode: String::new() };
        let action = self.hub.gate(&info).await;
        if action == Action::FailBefore || action == Action::FailAfter {
            self.hub.record(&info, action, false);
            return Err(injected(&info, "read"));
        }
        let r = self.hub.inner.get_opts(location, options).await;
        self.hub.record(&info, action, r.is_ok());
        r
    }

    async fn delete(&self, location: &Path) -> OsResult<()> {
        let info = ReqInfo { client: self.client, verb: "DELETE", path: location.to_string(), mode: String::new() };
        let action = self.hub.gate(&info).await;
        if action == Action::FailBefore {
            self.hub.record(&info, action, false);
            return Err(injected(&info, "before effect"));
        }
        let r = self.hub.inner.delete(location).await;
        if r.is_ok() {
            self.hub.record_version(&info.path, None);
        }
        self.hub.record(&info, action, r.is_ok());
        if action == Action::FailAfter {
            return Err(injected(&info, "after effect"));
        }
        r
    }

    fn list(&self, prefix: Option<&Path>) -> BoxStream<'_, OsResult<ObjectMeta>> {
        self.hub.inner.list(prefix)
    }

    async fn list_with_delimiter(&self, prefix: Option<&Path>) -> OsResult<ListResult> {
        self.hub.inner.list_with_delimiter(prefix).await
    }

    async fn copy(&self, from: &Path, to: &Path) -> OsResult<()> {
        self.hub.inner.copy(from, to).await
    }

    async fn copy_if_not_exists(&self, from: &Path, to: &Path) -> OsResult<()> {
        self.hub.inner.copy_if_not_exists(from, to).await
    }
}

/// The controlling side: hands out permits one request at a time.
pub struct Controller {
    rx: mpsc::UnboundedReceiver<Event>,
    pending: BTreeMap<usize, (ReqInfo, oneshot::Sender<Action>)>,
    notes: VecDeque<(usize, String)>,
}

impl Controller {
    fn absorb(&mut self, ev: Event) {
        match ev {
            Event::Request(info, reply) => {
                self.pending.insert(info.client, (info, reply));
            }
            Event::Note(c, m) => self.notes.push_back((c, m)),
        }
    }

    /// Wait until `client` has a request parked at the store, or emits a note
    /// (e.g. "done").  Returns the request info, or None with the note queued.
    pub async fn wait_for(&mut self, client: usize) -> Option<ReqInfo> {
        loop {
            if let Some((info, _)) = self.pending.get(&client) {
                return Some(info.clone());
            }
            if self.notes.iter().any(|(c, _)| *c == client) {
                return None;
            }
            match self.rx.recv().await {
                Some(ev) => self.absorb(ev),
                None => return None,
            }
        }
    }

    /// Let the parked request of `client` go ahead with `action`, then wait
    /// until that client is parked again or has emitted a note: the step is
    /// complete before the next one is scheduled.
    pub async fn step(&mut self, client: usize, action: Action) -> Option<ReqInfo> {
        let info = self.wait_for(client).await?;
        if let Some((_, reply)) = self.pending.remove(&client) {
            let _ = reply.send(action);
        }
        // wait for the client's next event
        loop {
            if self.pending.contains_key(&client) || self.notes.iter().any(|(c, _)| *c == client) {
                break;
            }
            match self.rx.recv().await {
                Some(ev) => self.absorb(ev),
                None => break,
            }
        }
        Some(info)
    }

    /// Pop the oldest note of `client`.
    pub fn take_note(&mut self, client: usize) -> Option<String> {
        let idx = self.notes.iter().position(|(c, _)| *c == client)?;
        self.notes.remove(idx).map(|(_, m)| m)
    }

    pub fn has_pending(&self, client: usize) -> bool {
        self.pending.contains_key(&client)
    }

    pub fn peek(&self, client: usize) -> Option<&ReqInfo> {
        self.pending.get(&client).map(|(i, _)| i)
    }

    /// Drop every parked request's permit sender: the requests proceed.
    pub fn release_all(&mut self) {
        for (_, (_, reply)) in std::mem::take(&mut self.pending) {
            let _ = reply.send(Action::Proceed);
        }
    }
}
